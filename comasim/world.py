"""One execution = one freshly forked world process running the real COMA program under SimPool.

    outcome = run_execution(case, ex, workdir)

`case` is explicit data (maps, layouts, configuration); `ex` says how to run it (mode, -c, schedule profile and
seed or recorded decisions, stream faults, read-back chunking).  Nothing here draws from a PRNG except through
the DecisionSource / SimTextReader seeded from `ex`.
"""
from __future__ import annotations

import gc
import hashlib
import json
import os
import pickle
import shutil
import signal
import sys
import time
import traceback

from . import fmt, sim, streams

WORLD_TIMEOUT_S = float(os.environ.get("COMASIM_WORLD_TIMEOUT", "300"))


def build_argv(case, ex):
    fs = ex.get("fileset", "base")
    rfile, qfile = f"r_{fs}.cmap", f"q_{fs}.cmap"
    if ex.get("self_file"):            # one CMAP file holding references and queries, given as both -r and -q
        rfile = qfile = f"c_{fs}.cmap"
    argv = ["-r", rfile, "-q", qfile] + ([] if ex.get("stdout") else ["-o", ex.get("out_name", "out.xmap")]) \
        + ["-oM", ex.get("mode", "best")]
    if ex.get("cpus") is not None:
        argv += ["-c", str(ex["cpus"])]
    cfg = dict(case.get("config", {}))
    cfg.update(ex.get("config", {}))
    for k in sorted(cfg):
        argv += [k, str(cfg[k])]
    if ex.get("qids") is not None:
        argv += ["-qId"] + [str(i) for i in ex["qids"]]
    if ex.get("rids") is not None:
        argv += ["-rId"] + [str(i) for i in ex["rids"]]
    if ex.get("pb", True):
        argv += ["-pb"]
    return argv


def write_inputs(case, workdir):
    texts = {}
    for name, fs in case["filesets"].items():
        rt = fmt.write_cmap(fs["refs"], fs.get("r_layout"))
        qt = fmt.write_cmap(fs["queries"], fs.get("q_layout"))
        with open(os.path.join(workdir, f"r_{name}.cmap"), "w") as f:
            f.write(rt)
        with open(os.path.join(workdir, f"q_{name}.cmap"), "w") as f:
            f.write(qt)
        texts[name] = (rt, qt)
        if fs.get("combined"):
            both = sorted(fs["refs"] + fs["queries"], key=lambda m: m["id"])
            with open(os.path.join(workdir, f"c_{name}.cmap"), "w") as f:
                f.write(fmt.write_cmap(both, fs.get("c_layout")))
    return texts


def _out_name(ex):
    return "<stdout>" if ex.get("stdout") else ex.get("out_name", "out.xmap")


def _is_input(n):
    return (n.endswith(".cmap") and n[:2] in ("r_", "q_", "c_")) or n.startswith("decoy_") or n.startswith("pre")


# what an earlier, unrelated run may have left at the output paths
STALE_TEXT = ("# hostname=elsewhere\n# XMAP File Version:\t0.2\n"
              "#h\t" + "\t".join(fmt.XMAP_COLS) + "\n#f\tint\tint\tint\tfloat\tfloat\tfloat\tfloat\tstring\tfloat\tstring\tfloat\t"
              "float\tstring\tint\tstring\n"
              "1\t999999\t999999\t0.0\t10.0\t0.0\t10.0\t+\t1.00\t2M\t11.0\t11.0\tFalse\t1\t(1,1)(2,2)\n"
              "2\t999999\t999999\t0.0\t10.0\t0.0\t10.0\t+\t1.00\t2M\t11.0\t11.0\tTrue\t1\t(1,1)(2,2)\n")


def plant_stale(workdir, out_name):
    for rel in canonical_names(out_name):
        p = os.path.join(workdir, rel)
        if os.path.dirname(p):
            os.makedirs(os.path.dirname(p), exist_ok=True)
        with open(p, "w", newline="") as f:
            f.write(STALE_TEXT)


def _clean_outputs(workdir):
    """Remove everything an earlier execution wrote (inputs and decoy_*.xmap files are kept)."""
    for n in os.listdir(workdir):
        p = os.path.join(workdir, n)
        if os.path.isdir(p):
            shutil.rmtree(p, ignore_errors=True)
        elif not _is_input(n):
            try:
                os.unlink(p)
            except OSError:
                pass


def canonical_names(out_name):
    """Where the run is expected to put its files -> the canonical names the oracles use."""
    if out_name == "<stdout>":       # -o omitted: main XMAP on stdout (captured), extra files named after '<stdout>'
        return {"stdout.xmap": "out.xmap", "<stdout>_1": "out_1.xmap", "<stdout>_2": "out_2.xmap"}
    base, ext = os.path.splitext(out_name)
    return {os.path.normpath(out_name): "out.xmap", os.path.normpath(f"{base}_1{ext}"): "out_1.xmap",
            os.path.normpath(f"{base}_2{ext}"): "out_2.xmap"}


def collect_outputs(workdir, out_name, mode=None, stale=False):
    """Every file below workdir that is not an input, keyed by canonical name (or by its own path if unexpected).
    With stale=True, planted stale files that this mode does not write and that are still untouched are left out."""
    canon = canonical_names(out_name)
    writes = {"best": ["out.xmap"], "separate": ["out.xmap", "out_1.xmap"], "joined": ["out.xmap", "out_1.xmap"],
              "all": ["out.xmap", "out_1.xmap", "out_2.xmap"]}.get(mode, [])
    files = {}
    for root, _, names in os.walk(workdir):
        for n in sorted(names):
            rel = os.path.normpath(os.path.relpath(os.path.join(root, n), workdir))
            if _is_input(rel) or rel == "stderr.txt":
                continue
            with open(os.path.join(root, n), "r", newline="", errors="replace") as f:
                text = f.read()
            name = canon.get(rel, rel)
            if stale and text == STALE_TEXT and name not in writes:
                continue
            files[name] = text
    return files


def _readback_summary(alignments):
    out = []
    for a in alignments:
        out.append({
            "id": _plain(a.alignmentId), "q": _plain(a.queryId), "r": _plain(a.referenceId),
            "qs": _plain(a.queryStartPosition), "qe": _plain(a.queryEndPosition),
            "rs": _plain(a.referenceStartPosition), "re": _plain(a.referenceEndPosition),
            "rev": bool(a.reverseStrand), "conf": _plain(a.confidence), "cigar": _plain(a.cigarString),
            "qlen": _plain(a.queryLength), "rlen": _plain(a.referenceLength),
            "pairs": [[int(p.reference.siteId), _plain(p.reference.position), int(p.query.siteId),
                       _plain(p.query.position)] for p in a.alignedPairs]})
    return out


def _plain(x):
    try:
        import numpy as np
        if isinstance(x, np.generic):
            x = x.item()
    except Exception:
        pass
    if isinstance(x, float) and x != x:
        return "nan"
    if isinstance(x, (int, float, str, bool)) or x is None:
        return x
    return repr(x)


def _child(case, ex, workdir, wfd):
    """Runs in the forked world process.  Never returns."""
    outcome = {"status": "harness", "exc": None}
    code = 0
    st = None
    try:
        sim.set_pdeathsig()
        os.chdir(workdir)
        err = os.open("stderr.txt", os.O_WRONLY | os.O_CREAT | os.O_TRUNC, 0o600)
        os.dup2(err, 2)
        os.close(err)
        devnull = os.open("stdout.xmap" if ex.get("stdout") else os.devnull, os.O_WRONLY | os.O_CREAT | os.O_TRUNC, 0o600)
        os.dup2(devnull, 1)
        os.close(devnull)
        import faulthandler
        faulthandler.enable()
        faulthandler.dump_traceback_later(WORLD_TIMEOUT_S - 5, exit=False)

        import socket
        socket.gethostname = lambda: "simhost"
        import p_tqdm.p_tqdm as pt
        cc = int(ex.get("cpu_count", 4))
        pt.cpu_count = lambda: cc

        dec = sim.DecisionSource(ex.get("sched_seed", 0), ex.get("decisions"))
        out_name = _out_name(ex)
        if os.path.dirname(out_name) and not ex.get("stdout"):
            os.makedirs(os.path.dirname(out_name), exist_ok=True)
        st = sim.SimState(dec, ex.get("profile", "serial"), watch_paths=[] if ex.get("stdout") else [out_name])
        st.extra_close.add(wfd)
        st.tapped = []
        st.fd_margin = ex.get("fd_margin")
        sim.install(st)

        from src.args import Args
        from src.program import Program
        from src.parsers.xmap_reader import XmapReader
        from . import taps

        writes = []
        orig_write = XmapReader.writeAlignments

        def write_tap(self, file, alignmentResults, args):
            fname = str(getattr(file, "name", "?"))
            canon = dict(canonical_names(_out_name(ex)), **{"<stdout>": "out.xmap"})
            writes.append({"file": canon.get(os.path.normpath(fname), os.path.basename(fname)),
                           "rows": [taps.row_summary(r) for r in alignmentResults.rows]})
            return orig_write(self, file, alignmentResults, args)

        XmapReader.writeAlignments = write_tap

        # prelude: other runs earlier in this very process (library use, e.g. sv/segment_indels.py runs COMA in-process)
        outcome["prelude"] = []
        for pre in ex.get("prelude") or []:
            try:
                exts = [taps.Bomb(pre["abort_at"])] if pre.get("abort_at") is not None else None
                Program(Args.parse(build_argv(case, pre)), extensions=exts).run()
                outcome["prelude"].append("ok")
            except BaseException as e:  # noqa: BLE001
                outcome["prelude"].append(type(e).__name__)
        del writes[:]
        del st.tapped[:]
        st.round_offset = st.round
        argv = build_argv(case, ex)
        outcome["argv"] = argv
        stream_objs = []
        try:
            args = Args.parse(argv)
            if ex.get("stream"):
                s = ex["stream"]
                for attr, k in (("referenceFile", 0), ("queryFile", 1)):
                    real = getattr(args, attr)
                    text = real.read()
                    name = real.name
                    real.close()
                    obj = streams.SimTextReader(text, name, s["profile"], s["seed"] * 2 + k, s.get("seekable", True))
                    setattr(args, attr, obj)
                    stream_objs.append(obj)
            prog = Program(args, extensions=[taps.CandidateTap()])
            outcome["n_refs"] = len(prog.referenceMaps)
            outcome["n_queries"] = len(prog.queryMaps)
            result = prog.run()
            outcome["status"] = "ok"
            outcome["returned_rows"] = [taps.row_summary(r) for r in result.rows]
        except SystemExit as e:
            outcome["status"] = "exception"
            outcome["exc"] = {"type": "SystemExit", "msg": str(e.code), "where": "parent", "tb": ""}
        except sim.HarnessError:
            raise
        except BaseException as e:  # noqa: BLE001
            remote = getattr(e, "_comasim_remote", None)
            outcome["status"] = "exception"
            outcome["exc"] = {"type": type(e).__name__, "msg": str(e)[:300],
                              "where": "worker-task" if remote else "parent",
                              "frame": (remote or {}).get("frame", ""),
                              "tb": "".join(traceback.format_exception(type(e), e, e.__traceback__))[-1500:]}
        try:
            sys.stdout.flush()
        except Exception:  # noqa: BLE001
            pass
        outcome["short_reads"] = sum(o.short_reads for o in stream_objs)
        outcome["stream_reads"] = sum(o.reads for o in stream_objs)
        # what a subsequent reader sees the moment run() returned - before any gc, through fresh handles
        files = collect_outputs(".", _out_name(ex), ex.get("mode", "best"), bool(ex.get("stale")))
        outcome["files"] = files
        outcome["writes"] = writes
        outcome["tapped"] = st.tapped
        # C18: read every written file back with the project's reader through a simulated stream
        rb = {}
        rbs = ex.get("readback")
        if rbs and rbs.get("decoy") and outcome["status"] == "ok":
            # history in ONE process: first read the files of an earlier run on *other* maps (same molecule ids) with a
            # reader built on those maps, then (below) this run's files with this run's reader
            from src.parsers.cmap_reader import CmapReader
            from src.parsers.xmap_alignment_pair_parser import XmapAlignmentPairWithDistanceParser
            dname = rbs["decoy"]
            drb = {}
            try:
                with open(f"r_{dname}.cmap") as fh:
                    drefs = CmapReader().readReferences(fh)
                with open(f"q_{dname}.cmap") as fh:
                    dqueries = [q.trim() for q in CmapReader().readQueries(fh)]
                dreader = XmapReader(XmapAlignmentPairWithDistanceParser(drefs, dqueries))
                for k, n in enumerate(sorted(x for x in os.listdir(".") if x.startswith("decoy_") and x.endswith(".xmap"))):
                    with open(n, "r", newline="") as fh:
                        text = fh.read()
                    stream = streams.SimTextReader(text, n, rbs["profile"], rbs["seed"] + 100 + k, rbs.get("seekable", True))
                    try:
                        drb[n] = {"ok": True, "alignments": _readback_summary(dreader.readAlignments(stream)), "text": text}
                    except BaseException as e:  # noqa: BLE001
                        drb[n] = {"ok": False, "type": type(e).__name__, "msg": str(e)[:200], "text": text}
            except BaseException as e:  # noqa: BLE001
                drb["_error"] = {"ok": False, "type": type(e).__name__, "msg": str(e)[:200]}
            outcome["readback_decoy"] = drb
        if rbs and outcome["status"] == "ok":
            for k, (n, text) in enumerate(sorted(files.items())):
                stream = streams.SimTextReader(text, n, rbs["profile"], rbs["seed"] + k, rbs.get("seekable", True))
                try:
                    als = prog.xmapReader.readAlignments(stream)
                    rb[n] = {"ok": True, "alignments": _readback_summary(als), "short_reads": stream.short_reads}
                except BaseException as e:  # noqa: BLE001
                    rb[n] = {"ok": False, "type": type(e).__name__, "msg": str(e)[:200]}
        outcome["readback"] = rb
        # what interpreter shutdown would do in the real CLI process: drop the program's objects, then flush whatever
        # file objects are still open (this process leaves through os._exit, which would lose their buffers)
        prog = args = result = None  # noqa: F841
        gc.collect()
        import io
        for o in gc.get_objects():
            try:
                if isinstance(o, io.IOBase) and not o.closed and o.writable() and getattr(o, "name", None) not in (1, 2, "<stdout>", "<stderr>"):
                    o.flush()
            except Exception:  # noqa: BLE001
                pass
    except BaseException as e:  # noqa: BLE001
        outcome = {"status": "harness", "exc": {"type": type(e).__name__, "msg": str(e)[:500],
                                                 "tb": traceback.format_exc()[-3000:]}}
        code = 3
    finally:
        try:
            if st is not None:
                outcome["events"] = st.events
                outcome["decisions"] = st.dec.log
                outcome["fallbacks"] = st.dec.fallbacks
                outcome["stats"] = st.stats
                outcome["sim_time"] = st.now
                st.kill_all()
            data = pickle.dumps(outcome, protocol=4)
            sim._send(wfd, data)
        except BaseException:  # noqa: BLE001
            code = 4
        os._exit(code)


def run_execution(case, ex, workdir):
    """Fork a world process, run the execution, return its outcome (plus the late view of the files)."""
    if not ex.get("keep_outputs"):
        _clean_outputs(workdir)           # keep_outputs: the run meets whatever the previous execution left at its paths
    if ex.get("stale"):
        plant_stale(workdir, _out_name(ex))
    rfd, wfd = os.pipe()
    sys.stdout.flush()
    sys.stderr.flush()
    t0 = time.time()
    pid = os.fork()
    if pid == 0:
        try:
            os.close(rfd)
            os.setsid()
        except OSError:
            pass
        _child(case, ex, workdir, wfd)
        os._exit(5)
    os.close(wfd)
    try:
        data = sim._recv(rfd, WORLD_TIMEOUT_S)
        outcome = pickle.loads(data)
    except TimeoutError:
        outcome = {"status": "harness", "exc": {"type": "WorldTimeout", "msg": f">{WORLD_TIMEOUT_S}s", "tb": ""}}
    except EOFError:
        outcome = {"status": "harness", "exc": {"type": "WorldDied", "msg": "no outcome", "tb": _stderr(workdir)}}
    finally:
        os.close(rfd)
        try:
            os.killpg(pid, signal.SIGKILL)
        except OSError:
            pass
        try:
            os.waitpid(pid, 0)
        except OSError:
            pass
    outcome["wall_s"] = time.time() - t0
    # late view: after the world process (and every handle it held) is gone
    outcome["late_files"] = collect_outputs(workdir, _out_name(ex), ex.get("mode", "best"), bool(ex.get("stale")))
    if outcome["status"] == "harness" and outcome.get("exc") and not outcome["exc"].get("tb"):
        outcome["exc"]["tb"] = _stderr(workdir)
    return outcome


def _stderr(workdir):
    try:
        with open(os.path.join(workdir, "stderr.txt"), "r", errors="replace") as f:
            return f.read()[-3000:]
    except OSError:
        return ""


def isolated(fn, *args, timeout=120):
    """Run fn(*args) in a freshly forked child (module state cannot leak between calls) and return its picklable result."""
    rfd, wfd = os.pipe()
    sys.stdout.flush()
    sys.stderr.flush()
    pid = os.fork()
    if pid == 0:
        code = 0
        try:
            os.close(rfd)
            sim.set_pdeathsig()
            try:
                res = ("ok", fn(*args))
            except BaseException as e:  # noqa: BLE001
                res = ("error", f"{type(e).__name__}: {e}\n{traceback.format_exc()[-2000:]}")
            sim._send(wfd, pickle.dumps(res, protocol=4))
        except BaseException:  # noqa: BLE001
            code = 3
        finally:
            os._exit(code)
    os.close(wfd)
    try:
        kind, val = pickle.loads(sim._recv(rfd, timeout))
    except (TimeoutError, EOFError) as e:
        kind, val = "error", f"isolated call failed: {type(e).__name__}"
    finally:
        os.close(rfd)
        try:
            os.kill(pid, signal.SIGKILL)
        except OSError:
            pass
        try:
            os.waitpid(pid, 0)
        except OSError:
            pass
    if kind != "ok":
        raise sim.HarnessError(val)
    return val


# ----------------------------------------------------------------------------------------------------------
def normalised_files(outcome, workdir=None, which="late_files"):
    """Bytes used for run-to-run comparison: the single '# coma' line removed (the statement allows it to differ);
    the scratch directory prefix of the two '... Maps From:' lines replaced (executions compared across shards
    live in different scratch directories)."""
    out = {}
    for n, text in outcome.get(which, {}).items():
        lines = []
        for line in text.split("\n"):
            if line.startswith("# coma "):
                continue
            if workdir and (line.startswith("# Reference Maps From:") or line.startswith("# Query Maps From:")):
                line = line.replace(workdir, "<scratch>")
            lines.append(line)
        out[n] = "\n".join(lines)
    return out


def digest(obj):
    return hashlib.sha256(json.dumps(obj, sort_keys=True, separators=(",", ":")).encode()).hexdigest()[:16]


def execution_digest(outcome, workdir):
    return digest({"events": outcome.get("events"), "files": normalised_files(outcome, workdir),
                   "status": outcome.get("status"), "exc": (outcome.get("exc") or {}).get("type")})


def make_workdir(tag):
    base = os.environ.get("VERIF_SCRATCH") or ("/dev/shm" if os.path.isdir("/dev/shm") else "/tmp")
    d = os.path.join(base, f"comasim-{os.getpid()}-{tag}")
    shutil.rmtree(d, ignore_errors=True)
    os.makedirs(d)
    return d
