"""SimTextReader: a text stream whose read(n) legally returns fewer characters than asked.

Pure Python and picklable by value (it travels inside the argparse Namespace to every simulated worker).
Chunk profiles: whole, one-char, random (1..64), line-aligned (never crosses a newline), tiny (1..3).
readline()/iteration are exact by the io contract; only read(n) may be short.
"""
from __future__ import annotations

import io
import random

CHUNK_PROFILES = ("whole", "one-char", "random", "line-aligned", "tiny")


class SimTextReader(io.TextIOBase):
    def __init__(self, text: str, name: str, profile: str = "whole", seed: int = 0, seekable: bool = True):
        super().__init__()
        self._text = text
        self._pos = 0
        self._name = name
        self._profile = profile
        self._rng = random.Random(seed)
        self._seekable = seekable
        self.short_reads = 0
        self.reads = 0

    # identity as COMA sees it ------------------------------------------------------------------------------
    @property
    def name(self):
        return self._name

    @property
    def encoding(self):
        return "utf-8"

    mode = "r"

    def __repr__(self):
        return self._name

    __str__ = __repr__

    # stream ----------------------------------------------------------------------------------------------------
    def readable(self):
        return True

    def seekable(self):
        return self._seekable

    def tell(self):
        if not self._seekable:
            raise io.UnsupportedOperation("underlying stream is not seekable")
        return self._pos

    def seek(self, pos, whence=0):
        if not self._seekable:
            raise io.UnsupportedOperation("underlying stream is not seekable")
        if whence == 0:
            self._pos = max(0, pos)
        elif whence == 1:
            self._pos = max(0, self._pos + pos)
        else:
            self._pos = max(0, len(self._text) + pos)
        return self._pos

    def _limit(self, n, remaining):
        p = self._profile
        if p == "whole":
            return n
        if p == "one-char":
            return 1
        if p == "tiny":
            return self._rng.randint(1, 3)
        if p == "random":
            return self._rng.randint(1, 64)
        if p == "line-aligned":
            nl = self._text.find("\n", self._pos)
            return (nl + 1 - self._pos) if nl >= 0 else remaining
        return n

    def read(self, n=-1):
        self._checkClosed()
        remaining = len(self._text) - self._pos
        if n is None or n < 0:
            n = remaining
        if remaining <= 0 or n == 0:
            return ""
        self.reads += 1
        want = min(n, remaining)
        k = max(1, min(want, self._limit(want, remaining)))
        if k < want:
            self.short_reads += 1
        out = self._text[self._pos:self._pos + k]
        self._pos += k
        return out

    def readline(self, size=-1):
        self._checkClosed()
        if self._pos >= len(self._text):
            return ""
        nl = self._text.find("\n", self._pos)
        end = len(self._text) if nl < 0 else nl + 1
        if size is not None and size >= 0:
            end = min(end, self._pos + size)
        out = self._text[self._pos:end]
        self._pos = end
        return out

    def __iter__(self):
        return self

    def __next__(self):
        line = self.readline()
        if not line:
            raise StopIteration
        return line

    # pickling by value -----------------------------------------------------------------------------------------
    def __reduce__(self):
        return (_rebuild, (self._text, self._name, self._profile, self._rng.getstate(), self._seekable,
                           self._pos, self.closed))


def _rebuild(text, name, profile, rngstate, seekable, pos, closed):
    s = SimTextReader(text, name, profile, 0, seekable)
    s._rng.setstate(rngstate)
    s._pos = pos
    if closed:
        s.close()
    return s
