"""CMAP writer and the two oracle parsers (CMAP, XMAP).  Shares no code with src/parsers."""
from __future__ import annotations

import random
import re

# ----------------------------------------------------------------------------------------------------------
# maps are plain dicts: {"id": int, "length": number, "pos": [numbers ascending]}


def fnum(x):
    """Text for a coordinate: one decimal, as Bionano writes them."""
    return "{:.1f}".format(float(x))


BASE_COLS = ["CMapId", "ContigLength", "NumSites", "SiteID", "LabelChannel", "Position", "StdDev", "Coverage",
             "Occurrence"]


def write_cmap(maps, layout=None):
    """Serialise maps under a layout:
       order: list of molecule indexes (file order); rows: 'sorted'|'shuffled'|'interleaved';
       marker: 'last'|'first'|'random'; extra_cols: int; comments: int; seed: int; int_coords: bool;
       col_perm: bool (declared column order permuted, CMapId not first)"""
    layout = dict(layout or {})
    rng = random.Random(layout.get("seed", 0))
    order = layout.get("order") or list(range(len(maps)))
    rows_mode = layout.get("rows", "sorted")
    marker = layout.get("marker", "last")
    extra = int(layout.get("extra_cols", 0))
    cols = BASE_COLS + [f"Extra{i}" for i in range(extra)]
    perm = list(range(len(cols)))
    if layout.get("col_perm"):
        rng.shuffle(perm)
    lines = ["# CMAP File Version:\t0.1", "# Label Channels:\t1"]
    for i in range(int(layout.get("comments", 0))):
        lines.append(f"# comment line {i} with a tab\tand text")
    lines.append("#h " + "\t".join(cols[k] for k in perm))
    if layout.get("f_line", True):        # the '#f' type line is customary, not required
        lines.append("#f " + "\t".join("int" if c in ("CMapId", "NumSites", "SiteID", "LabelChannel") else "float"
                                       for c in (cols[k] for k in perm)))
    fmt = (lambda v: str(int(v))) if layout.get("int_coords") else fnum
    per_mol = []
    for mi in order:
        m = maps[mi]
        n = len(m["pos"])
        rows = []
        for s, p in enumerate(m["pos"], start=1):
            rows.append([str(m["id"]), fnum(m["length"]), str(n), str(s), "1", fmt(p), "0.0", "1.0", "1.0"]
                        + [f"{(s * 7 + j) % 13}.5" for j in range(extra)])
        end = [str(m["id"]), fnum(m["length"]), str(n), str(n + 1), "0", fmt(m["length"]), "0.0", "1.0", "0.0"] \
            + ["0.0"] * extra
        if rows_mode in ("shuffled", "interleaved"):
            rng.shuffle(rows)
        if marker == "first":
            rows.insert(0, end)
        elif marker == "random":
            rows.insert(rng.randint(0, len(rows)), end)
        else:
            rows.append(end)
        per_mol.append(rows)
    if rows_mode == "interleaved":
        flat = []
        cursors = [0] * len(per_mol)
        live = [k for k in range(len(per_mol)) if per_mol[k]]
        while live:
            k = rng.choice(live)
            flat.append(per_mol[k][cursors[k]])
            cursors[k] += 1
            if cursors[k] >= len(per_mol[k]):
                live.remove(k)
    else:
        flat = [r for rows in per_mol for r in rows]
    for r in flat:
        lines.append("\t".join(r[k] for k in perm))
    return "\n".join(lines) + "\n"


# ----------------------------------------------------------------------------------------------------------
def parse_cmap(text):
    """Oracle CMAP parser -> {id: {"id", "length" (float of the channel-0 row's Position), "pos": sorted floats,
    "has_marker": bool}} for every molecule id that has at least one row."""
    cols = None
    mols = {}
    for line in text.split("\n"):
        if not line.strip():
            continue
        if line.startswith("#"):
            if line.startswith("#h"):
                cols = re.split(r"\s+", line.strip())[1:]
            continue
        if cols is None:
            raise ValueError("data row before #h line")
        f = line.split("\t")
        rec = dict(zip(cols, f))
        mid = int(rec["CMapId"]) if rec["CMapId"].lstrip("-").isdigit() else int(float(rec["CMapId"]))
        m = mols.setdefault(mid, {"id": mid, "length": None, "pos": [], "has_marker": False})
        ch = int(float(rec["LabelChannel"]))
        p = float(rec["Position"])
        if ch == 0:
            if not m["has_marker"]:
                m["length"] = p
                m["has_marker"] = True
        else:
            m["pos"].append(p)
    for m in mols.values():
        m["pos"].sort()
    return mols


def trimmed(m):
    """Query geometry as the statement defines it: first label at 0, length last-first+1."""
    if not m["pos"]:
        return dict(m)
    f = m["pos"][0]
    return {"id": m["id"], "length": m["pos"][-1] - f + 1, "pos": [p - f for p in m["pos"]]}


# ----------------------------------------------------------------------------------------------------------
XMAP_COLS = ["XmapEntryID", "QryContigID", "RefContigID", "QryStartPos", "QryEndPos", "RefStartPos", "RefEndPos",
             "Orientation", "Confidence", "HitEnum", "QryLen", "RefLen", "AlignedRest", "LabelChannel", "Alignment"]

_PAIR = re.compile(r"\((\d+),(\d+)\)")


def parse_xmap(text):
    """Oracle XMAP parser -> {"header": [lines], "cols": [...], "records": [dict], "problems": [str]}.
    A record dict holds the raw text fields plus "pairs" [(ref, qry)] and "line"."""
    header, records, problems = [], [], []
    cols = None
    seen_row = False
    for ln, line in enumerate(text.split("\n")):
        if line == "":
            continue
        if line.startswith("#"):
            if seen_row:
                problems.append(f"header line after a record at line {ln + 1}")
            header.append(line)
            if line.startswith("#h"):
                cols = re.split(r"\s+", line.strip())[1:]
            continue
        seen_row = True
        if cols is None:
            problems.append(f"record before #h at line {ln + 1}")
            continue
        f = line.split("\t")
        if len(f) != len(cols):
            problems.append(f"line {ln + 1}: {len(f)} fields, header declares {len(cols)}")
            continue
        rec = dict(zip(cols, f))
        rec["line"] = line
        al = rec.get("Alignment", "")
        pairs = [(int(a), int(b)) for a, b in _PAIR.findall(al)]
        if "".join(f"({a},{b})" for a, b in pairs) != al:
            problems.append(f"line {ln + 1}: Alignment column is not a sequence of (r,q) groups: {al[:60]!r}")
        rec["pairs"] = pairs
        records.append(rec)
    if cols is None:
        problems.append("no #h line")
    if text and not text.endswith("\n"):
        problems.append("file does not end with a newline")
    if "\x00" in text:
        problems.append("NUL bytes in file")
    return {"header": header, "cols": cols or [], "records": records, "problems": problems}


def record_key(rec, drop=("XmapEntryID", "line", "pairs")):
    """A record as a comparable tuple, without the fields named in drop."""
    return tuple((k, rec[k]) for k in XMAP_COLS if k not in drop and k in rec)
