"""Observation taps.

CandidateTap  - an Extension handed to Program(args, extensions=[...]).  It travels by value (dill) with
                the coordinator closure into every simulated worker and records every candidate row the
                worker builds.  The records are plain lists/dicts kept in this module's BUFFER, which the
                SimPool worker loop ships back with the task result.
row_summary   - plain-data rendering of an AlignmentResultRow (used by CandidateTap and by WriteTap).
"""
from __future__ import annotations

BUFFER = []          # worker side: candidates of the task being run
CURRENT = (0, -1)    # (round, task index) set by the SimPool worker loop


def begin(round_no, idx):
    global CURRENT
    CURRENT = (round_no, idx)
    del BUFFER[:]


def end():
    out = list(BUFFER)
    del BUFFER[:]
    return out


def _num(x):
    try:
        f = float(x)
    except Exception:
        return None
    return int(f) if f == int(f) and abs(f) < 1e15 else f


def pos_summary(p):
    from src.alignment.alignment_position import AlignedPair, NotAlignedQueryPosition, \
        NotAlignedReferencePosition, ScoredNotAlignedPosition
    score = _num(getattr(p, "score", None))
    if isinstance(p, AlignedPair):
        return ["P", int(p.reference.siteId), int(p.query.siteId), _num(p.queryShift), score,
                _num(p.reference.position), _num(p.query.position), int(p.source)]
    inner = p.position if isinstance(p, ScoredNotAlignedPosition) else p
    if isinstance(inner, NotAlignedQueryPosition):
        return ["Q", int(inner.query.siteId), score, _num(inner.query.position), _num(inner.referenceStart)]
    if isinstance(inner, NotAlignedReferencePosition):
        return ["R", int(inner.reference.siteId), score, _num(inner.reference.position)]
    return ["?", repr(p), score]


def seg_summary(s):
    peak = getattr(s, "peak", None)
    return {"peak": _num(getattr(peak, "position", None)),
            "score": _num(s.segmentScore),
            "pos": [pos_summary(p) for p in s.positions]}


def row_summary(row):
    return {"q": int(row.queryId), "r": int(row.referenceId), "rev": bool(row.reverseStrand),
            "conf": _num(row.confidence), "rest": bool(row.alignedRest),
            "qlen": _num(row.queryLength), "rlen": _num(row.referenceLength),
            "qs": _num(row.queryStartPosition), "qe": _num(row.queryEndPosition),
            "rs": _num(row.referenceStartPosition), "re": _num(row.referenceEndPosition),
            "segs": [seg_summary(s) for s in row.segments]}


from src.extensions.extension import Extension  # noqa: E402  (src resolved by comasim.repo.setup)
from src.extensions.messages import MultipleAlignmentResultRowsMessage  # noqa: E402


class CandidateTap(Extension):
    messageType = MultipleAlignmentResultRowsMessage

    def handle(self, message):
        cands = []
        for m in message.messages:
            cands.append({"ref": int(m.reference.moleculeId), "qry": int(m.query.moleculeId),
                          "shift": int(m.query.shift), "nq": len(m.query.positions),
                          "index": int(m.index), "row": row_summary(m.alignment)})
        BUFFER.append({"task": list(CURRENT), "cands": cands})


class Bomb(Extension):
    """Fault for prelude runs: raises inside the worker while it runs task number `at` (any round), which aborts that
    run in the middle of a map - and, as with pathos, leaves its pool cached."""
    messageType = MultipleAlignmentResultRowsMessage

    def __init__(self, at):
        self.at = at

    def handle(self, message):
        if CURRENT[1] == self.at:
            raise RuntimeError("injected task failure")
