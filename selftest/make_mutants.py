"""Generates selftest/mutants/*.patch from (property, name, file, old, new) replacements against /repo HEAD."""
import os
import subprocess
import sys

REPO = "/repo"
OUT = os.path.join(os.path.dirname(os.path.abspath(__file__)), "mutants")
M = []


def m(prop, name, file, old, new, note=""):
    M.append((prop, name, file, old, new, note))


WC = "src/workflow_coordinator.py"
MP = "src/multi_pass_workflow_coordinator.py"
AR = "src/alignment/alignment_results.py"
OM = "src/correlation/optical_map.py"
XR = "src/parsers/xmap_reader.py"
CR = "src/parsers/cmap_reader.py"
AL = "src/alignment/aligner.py"
SG = "src/alignment/segments.py"
AP = "src/alignment/alignment_position.py"
SC = "src/alignment/segment_chainer.py"

# ---- C09
m("C09", "uimap", WC, "from p_tqdm import p_imap", "from p_tqdm import p_uimap as p_imap",
  "unordered parallel map: visible only through equal-confidence ties")
m("C09", "no-queryid-sort", AR,
  "sorted(sorted(alignmentResultRows, key=lambda r: r.confidence, reverse=True), key=lambda r: r.queryId)",
  "sorted(alignmentResultRows, key=lambda r: (r.queryId, -r.confidence))",
  "equivalent sort - expected to SURVIVE (control)")
m("C09", "worker-cache", OM,
  "    def getSequence(self, sequenceGenerator: SequenceGenerator, reverseStrand=False, start: int = 0, end: int = None):\n        sequence = sequenceGenerator.positionsToSequence(self.positions, start, end)\n",
  "    def getSequence(self, sequenceGenerator: SequenceGenerator, reverseStrand=False, start: int = 0, end: int = None):\n        key = (self.moleculeId, sequenceGenerator.resolution, start, end)\n        if key not in _SEQUENCE_CACHE:\n            _SEQUENCE_CACHE[key] = sequenceGenerator.positionsToSequence(self.positions, start, end)\n        sequence = _SEQUENCE_CACHE[key]\n",
  "module-level memo keyed by molecule id: a second-pass fragment reuses the whole query's vector if the same worker saw it")
m("C07", "header-before-execute", "src/program.py",
  "        alignmentResultRows = self.workflowCoordinator.execute(self.referenceMaps, self.queryMaps)\n",
  "        self.args.outputFile.write(\"# COMA run\\n\")\n        self.args.outputFile.flush()\n        alignmentResultRows = self.workflowCoordinator.execute(self.referenceMaps, self.queryMaps)\n",
  "writes to the -o handle before the pool runs: workers re-open the path with mode w and destroy it")
m("C09", "cpu-dependent-peaks", WC,
  "        bestPrimaryCorrelationPeaks = self.peaksSelector.selectPeaks(primaryCorrelations)\n",
  "        bestPrimaryCorrelationPeaks = self.peaksSelector.selectPeaks(primaryCorrelations)\n        if self.args.numberOfCpus and self.args.numberOfCpus > 8:\n            bestPrimaryCorrelationPeaks = bestPrimaryCorrelationPeaks[:2]\n",
  "behaviour depends on --cpus")
# ---- C10
m("C10", "fragment-lookup-by-index", AR,
  "query = next((opticMap for opticMap in queries if opticMap.moleculeId == self.queryId), None)",
  "query = queries[min(self.queryId, len(queries)) - 1] if queries[min(self.queryId, len(queries)) - 1].moleculeId == self.queryId else next((opticMap for opticMap in queries if opticMap.moleculeId == self.queryId), None)",
  "control: equivalent - expected to SURVIVE")
m("C10", "fragment-lookup-positional", AR,
  "query = next((opticMap for opticMap in queries if opticMap.moleculeId == self.queryId), None)",
  "query = next((opticMap for opticMap in queries if opticMap.moleculeId >= self.queryId and len(opticMap.positions) >= 0), None) if len(queries) % 5 else next((opticMap for opticMap in reversed(queries) if len(opticMap.positions) == len(next(o for o in queries if o.moleculeId == self.queryId).positions)), None)",
  "with a multiple of 5 queries the fragment source is the last query having the same label count")
m("C10", "qid-filter-first-only", CR,
  "            maps = maps[maps[\"CMapId\"].isin(moleculeIds)]",
  "            maps = maps[maps[\"CMapId\"].isin(sorted(moleculeIds)[:max(1, len(list(moleculeIds)) - (len(list(moleculeIds)) > 3))])]",
  "-qId with more than three ids silently drops the largest")
# ---- C05
m("C05", "best-not-reversed", WC,
  "sorted(alignmentResultRows, key=lambda a: a.confidence, reverse=True)", "sorted(alignmentResultRows, key=lambda a: a.confidence)",
  "worst candidate chosen")
m("C05", "best-no-joined-exclusion", MP,
  "bestRows = [row for row in filteredFirstPassRows if row.queryId not in joinedIds]",
  "bestRows = [row for row in filteredFirstPassRows if row.queryId not in joinedIds[:-1]]",
  "last joined query also keeps its un-joined record: two records for one query")
m("C05", "sort-by-reference", MP,
  "bestAndJoinedRows = sorted(joinedRows + bestRows, key=lambda r: r.queryId)",
  "bestAndJoinedRows = sorted(joinedRows + bestRows, key=lambda r: (r.referenceId, r.queryId))",
  "hidden by AlignmentResults.create re-sorting - expected to SURVIVE (control)")
# ---- C07
m("C07", "zip-again", WC,
  "        if not rowsWithMessages:\n            return None\n", "", "re-introduces the abort on a query without seed peaks")
m("C07", "reader-empty", XR, "        if alignments.empty:\n            return []\n\n", "", "re-introduces the reader failure on zero-record files")
m("C07", "two-label-abort", OM,
  "        if self.length > reference.length:",
  "        if len(self.positions) == 2 and self.positions[-1] > 60000:\n            raise ValueError(\"degenerate query\")\n        if self.length > reference.length:",
  "a two-label query spanning > 60 kb aborts the run")
# ---- C08
m("C08", "all-writes-after-join", MP,
  "        if self.args.outputMode == 'all':\n            self.saveAdditionalOutput(filteredFirstPassRows, 1)\n            self.saveAdditionalOutput(filteredSecondPassRows, 2)\n            return joinedRows",
  "        if self.args.outputMode == 'all':\n            self.saveAdditionalOutput(filteredFirstPassRows + [r for r in joinedRows if False], 1)\n            self.saveAdditionalOutput([r for r in filteredSecondPassRows if r.queryId not in [j.queryId for j in joinedRows]], 2)\n            return joinedRows",
  "'all' omits joined queries from its _2 file")
m("C08", "overlap-strict", AR, "            if diff <= maxDifference:", "            if diff < maxDifference or maxDifference == 0:",
  "maxDifference 0 joins everything")
m("C08", "joined-returns-separate", MP,
  "        if self.args.outputMode == 'joined':\n            self.saveAdditionalOutput(separateRows, 1)",
  "        if self.args.outputMode == 'joined':\n            self.saveAdditionalOutput(separateRows[:-1] if len(separateRows) > 6 else separateRows, 1)",
  "'joined' loses the last un-joined record when there are more than six")
m("C08", "join-other-strand", AR,
  "        if self.orientation == alignedRest.orientation and self.referenceId == alignedRest.referenceId:",
  "        if self.referenceId == alignedRest.referenceId:", "joins records of opposite strands")
# ---- C01 / C04
m("C04", "penalty-cap", AP,
  "        score = perfectMatchScore - distancePenaltyMultiplier * self.distance",
  "        score = perfectMatchScore - distancePenaltyMultiplier * min(self.distance, 1000)",
  "offsets beyond 1000 bp are not fully penalised (needs -d > 1000 and a far pair)")
m("C04", "hardcoded-unmatched", "src/workflow_coordinator_factory.py",
  "            self.args.unmatchedPenalty)", "            min(self.args.unmatchedPenalty, -100))",
  "-su 0 is silently replaced by -100")
m("C01", "skip-last-junction", "src/alignment/segment_with_resolved_conflicts.py",
  "        for (i0, i1) in self.__pairIndexes(len(chainedSegments)):",
  "        for (i0, i1) in self.__pairIndexes(len(chainedSegments) - (1 if len(chainedSegments) > 3 else 0)):",
  "with more than three chain members the last junction is never resolved")
m("C04", "confidence-first-five", AR,
  "        confidence = sum(s.segmentScore for s in segments)", "        confidence = sum(s.segmentScore for s in segments[:5])",
  "rows with more than five segments under-report their confidence")
# ---- C02
m("C02", "no-swap-reverse", AR,
  "        queryStartPosition = (firstPair if not reverseStrand else lastPair).query.position\n        queryEndPosition = (lastPair if not reverseStrand else firstPair).query.position",
  "        queryStartPosition = firstPair.query.position\n        queryEndPosition = lastPair.query.position",
  "start/end not swapped for '-'")
m("C02", "shift-dropped-reverse", OM,
  "            i = len(self.positions) + self.shift", "            i = len(self.positions) + (self.shift if self.shift < 12 else self.shift - 1)",
  "reverse-strand tail fragments with a large label offset are numbered one too low")
m("C02", "lens-swapped", XR,
  "            \"QryLen\": \"{:.1f}\".format(row.queryLength),\n            \"RefLen\": \"{:.1f}\".format(row.referenceLength),",
  "            \"QryLen\": \"{:.1f}\".format(row.queryLength if not row.alignedRest else row.referenceLength),\n            \"RefLen\": \"{:.1f}\".format(row.referenceLength if not row.alignedRest else row.queryLength),",
  "second-pass records swap QryLen and RefLen")
m("C02", "untrimmed-length", "src/program.py",
  "map(lambda q: q.trim(), cmapReader.readQueries(self.args.queryFile, self.args.queryIds)))",
  "map(lambda q: q.trim() if q.positions[0] < 30000 else OpticalMapShim(q), cmapReader.readQueries(self.args.queryFile, self.args.queryIds)))",
  "queries whose first label lies beyond 30 kb keep their declared length")
# ---- C03
m("C03", "single-pair-empty", AR,
  "                count = 1\n        yield AlignmentResultRow.__hitToString(count, previousHit)\n", "                count = 1\n        if hit:\n            yield AlignmentResultRow.__hitToString(count, hit)\n",
  "re-introduces the empty HitEnum of one-pair records")
# ---- C06 / C11
m("C06", "reverse-sequence-not-reversed", OM, "        return sequence[::-1] if reverseStrand else sequence",
  "        return sequence[::-1] if reverseStrand and len(self.positions) != 23 else sequence", "23-label queries are not reversed")
m("C11", "reverse-siteids", OM, "            i = len(self.positions) + self.shift\n            moleculeEndPosition = self.length - 1",
  "            i = len(self.positions) + self.shift\n            moleculeEndPosition = self.length - (1 if len(self.positions) % 7 else 2)",
  "reverse coordinates off by one bp for label counts divisible by 7")
m("C11", "chain-strand-flip", SC,
  "        queryDistance = currentSegment.startPosition.query.position - previousSegment.endPosition.query.position\n",
  "        queryDistance = previousSegment.endPosition.query.position - currentSegment.startPosition.query.position \\\n            if currentSegment.reverse \\\n            else currentSegment.startPosition.query.position - previousSegment.endPosition.query.position\n",
  "re-introduces the strand-dependent query distance")
# ---- C17
m("C17", "positions-unsorted", CR, "        positions = labelSites[\"Position\"].sort_values().tolist()", "        positions = labelSites[\"Position\"].tolist()",
  "row order leaks into the map")
m("C17", "marker-from-last-row", CR, "        moleculeEndMarker = group[group[\"LabelChannel\"] == 0].iloc[0]", "        moleculeEndMarker = group.iloc[-1]",
  "length taken from the last row of the group")
m("C17", "filter-wrong", CR, "            maps = maps[maps[\"CMapId\"].isin(moleculeIds)]", "            maps = maps[maps[\"CMapId\"].isin(moleculeIds) | (maps[\"CMapId\"] == maps[\"CMapId\"].max())] if len(list(moleculeIds)) > 2 else maps[maps[\"CMapId\"].isin(moleculeIds)]",
  "filters with 3+ ids also keep the largest id")
# ---- C18
m("C18", "confidence-one-decimal", XR, "            \"Confidence\": \"{:.2f}\".format(row.confidence),", "            \"Confidence\": \"{:.2f}\".format(row.confidence) if row.confidence < 30000 else \"{:.1f}\".format(row.confidence),",
  "confidences of 30000 and more written with one decimal (caught since C18 compares the value read back with the row handed to the writer)")
m("C18", "reader-slices-last-pair", "src/parsers/xmap_alignment_pair_parser.py",
  "        alignmentPairStrings = alignment[:-1].replace('(', '').split(')')\n        reference = next(",
  "        alignmentPairStrings = alignment[:-1].replace('(', '').split(')')\n        alignmentPairStrings = alignmentPairStrings[:40]\n        reference = next(",
  "reader truncates alignments with more than 40 pairs")
m("C18", "reader-int-confidence", "src/correlation/bionano_alignment.py", "            reverseStrand,\n            confidence,\n", "            reverseStrand,\n            float(int(confidence)) if confidence > 50000 else confidence,\n",
  "confidence above 50000 truncated on read")


def main():
    os.makedirs(OUT, exist_ok=True)
    for f in os.listdir(OUT):
        os.unlink(os.path.join(OUT, f))
    wt = "/tmp/comasim-mkmut"
    subprocess.run(["git", "-C", REPO, "worktree", "remove", "--force", wt], capture_output=True)
    subprocess.run(["git", "-C", REPO, "worktree", "add", "-q", "--detach", wt, "HEAD"], check=True)
    try:
        for prop, name, file, old, new, note in M:
            p = os.path.join(wt, file)
            s = open(p).read()
            if s.count(old) != 1:
                print(f"SKIP {prop}-{name}: pattern occurs {s.count(old)} times in {file}")
                continue
            s2 = s.replace(old, new)
            if name == "worker-cache":
                s2 = s2.replace("warnings.simplefilter(\"ignore\")\n\n\n@dataclass(frozen=True)\nclass PositionWithSiteId", "warnings.simplefilter(\"ignore\")\n_SEQUENCE_CACHE = {}\n\n\n@dataclass(frozen=True)\nclass PositionWithSiteId")
            if name == "untrimmed-length":
                s2 = s2.replace("def main():", "def OpticalMapShim(q):\n    from src.correlation.optical_map import OpticalMap\n    t = q.trim()\n    return OpticalMap(t.moleculeId, q.length, t.positions)\n\n\ndef main():")
            open(p, "w").write(s2)
            d = subprocess.run(["git", "-C", wt, "diff"], capture_output=True, text=True).stdout
            open(os.path.join(OUT, f"{prop}-{name}.patch"), "w").write(f"Property: {prop}\nNote: {note}\n\n{d}")
            subprocess.run(["git", "-C", wt, "checkout", "-q", "--", "."], check=True)
            print("ok", prop, name)
    finally:
        subprocess.run(["git", "-C", REPO, "worktree", "remove", "--force", wt], capture_output=True)


if __name__ == "__main__":
    sys.exit(main())
