"""Resolve `src` to the tree under test ($COMA_REPO, default /repo) and refuse anything else."""
import os
import sys

REPO = os.path.realpath(os.environ.get("COMA_REPO", "/repo"))


def setup():
    if REPO not in sys.path:
        sys.path.insert(0, REPO)
    import src  # noqa
    here = os.path.realpath(os.path.dirname(src.__file__) if getattr(src, "__file__", None) else list(src.__path__)[0])
    if not here.startswith(REPO + os.sep):
        raise SystemExit(f"HARNESS-ERROR: src resolves to {here}, not under {REPO}")
    return REPO
