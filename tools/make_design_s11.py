"""Regenerates the two tables of DESIGN.md section 11 (between the BEGIN/END markers) from seeded/*/meta.json,
selftest/seeded.results (if present: final re-run overrides meta) and selftest/mutants.results."""
import glob
import json
import os
import re
import subprocess

HERE = os.path.join(os.path.dirname(os.path.abspath(__file__)), "..")
final = {}
p = os.path.join(HERE, "selftest", "seeded.results")
if os.path.exists(p):
    for ln in open(p):
        parts = ln.split()
        if len(parts) >= 2 and "=" in parts[1]:
            final[parts[0]] = {kv.split("=")[0]: int(kv.split("=")[1]) for kv in parts[1:]}
src = open(os.path.join(HERE, "tools", "mutant_table.py")).read()
ns = {}
exec(src[src.index("DESC = {"):src.index("rows = []")], ns)
DESC = ns["DESC"]
rows = []
for d in sorted(glob.glob(os.path.join(HERE, "seeded", "*", "meta.json"))):
    m = json.load(open(d))
    own = m["breaks_property"]
    runs = {c: v["exit"] for c, v in m["checks_run"].items()}
    runs.update(final.get(m["id"], {}))
    own_res = {1: "caught", 0: "missed", 2: "harness error (nondeterministic)"}.get(runs.get(own), "not run")
    others = sorted(c for c, e in runs.items() if e == 1 and c != own)
    rows.append(f"| {m['id']} | {DESC.get(m['id'], '')} | {own_res} | {', '.join(others) or '-'} |")
t1 = "| id | change | own check | also caught by |\n|----|--------|-----------|----------------|\n" + "\n".join(rows)
notes = {}
for f in glob.glob(os.path.join(HERE, "selftest", "mutants", "*.patch")):
    for ln in open(f):
        if ln.startswith("Note:"):
            notes[os.path.basename(f)[:-6]] = ln[5:].strip()
            break
rows = []
for ln in open(os.path.join(HERE, "selftest", "mutants.results")):
    parts = ln.split()
    if len(parts) < 3:
        continue
    res = {"exit=1": "caught", "exit=0": "survived", "exit=2": "harness error"}.get(parts[2], parts[2])
    rows.append(f"| {parts[0]} | {notes.get(parts[0], '')} | {res} |")
t2 = "| patch | what it does | result |\n|-------|--------------|--------|\n" + "\n".join(rows)
dp = os.path.join(HERE, "DESIGN.md")
s = open(dp).read()
s = re.sub(r"<!-- BEGIN seeded-table -->.*?<!-- END seeded-table -->", "<!-- BEGIN seeded-table -->\n" + t1 + "\n<!-- END seeded-table -->", s, flags=re.S)
s = re.sub(r"<!-- BEGIN planted-table -->.*?<!-- END planted-table -->", "<!-- BEGIN planted-table -->\n" + t2 + "\n<!-- END planted-table -->", s, flags=re.S)
open(dp, "w").write(s)
print("seeded rows:", t1.count("\n") - 1, "planted rows:", t2.count("\n") - 1)
