"""Deterministic simulation harness for mikoar/coma (see /verif/DESIGN.md)."""
