#!/bin/sh
# the full thorough tier, one property after another; keeps each check's output and a copy of its evidence file
seed=${1:-0}; out=${2:-/tmp/comasim-thorough}
mkdir -p "$out" evidence_thorough
for p in C07 C09 C01 C02 C03 C04 C05 C06 C08 C10 C11 C17 C18; do
  s=$(date +%s)
  VERIF_SEED=$seed ./check $p --tier thorough > "$out/$p.out" 2>&1 </dev/null
  rc=$?
  cp evidence/$p.json evidence_thorough/$p.json 2>/dev/null
  echo "$p exit=$rc wall=$(( $(date +%s) - s ))s $(grep -v '^  \|KNOWN' "$out/$p.out" | tail -1 | cut -c1-220)"
done
