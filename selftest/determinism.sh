#!/bin/sh
# Determinism self-test: every property's world stream is executed three times -
#   A: 16 shards, hash-seed set 1     B: 3 shards, hash-seed set 1     C: 16 shards, hash-seed set 2 (other PYTHONHASHSEEDs)
# and the per-execution digests (event log + normalised output files) must be identical world by world.
# usage: selftest/determinism.sh [worlds-per-property] [seed]
cd "$(dirname "$0")/.." || exit 2
W=${1:-48}; SEED=${2:-7}
T=$(mktemp -d /dev/shm/comasim-det-XXXXXX)
fail=0
for p in C01 C02 C03 C04 C05 C06 C07 C08 C09 C10 C11 C17 C18; do
  w=$W; [ "$p" = C17 ] && w=$((W*20))
  VERIF_SEED=$SEED COMASIM_DUMP_DIGESTS=$T/$p.A.json ./check $p --worlds $w --wall 600 --jobs 16 > $T/$p.A.out 2>&1
  VERIF_SEED=$SEED COMASIM_DUMP_DIGESTS=$T/$p.B.json ./check $p --worlds $w --wall 600 --jobs 3 > $T/$p.B.out 2>&1
  VERIF_SEED=$SEED COMASIM_HASHSALT=other COMASIM_DUMP_DIGESTS=$T/$p.C.json ./check $p --worlds $w --wall 600 --jobs 16 > $T/$p.C.out 2>&1
  /venv/bin/python - $T $p <<'PY' || fail=1
import json, sys
t, p = sys.argv[1:]
a, b, c = (json.load(open(f"{t}/{p}.{x}.json")) for x in "ABC")
prim = lambda d: {k: v for k, v in d.items() if k.endswith("/0")}
a, b, c = prim(a), prim(b), prim(c)
n = sum(len(v) for v in a.values())
bad = [k for k in a if a[k] != b.get(k) or a[k] != c.get(k)]
if set(a) != set(b) or set(a) != set(c) or bad or not n:
    print(f"DETERMINISM-FAIL {p}: worlds {len(a)}/{len(b)}/{len(c)} differing {bad[:5]}")
    sys.exit(1)
print(f"determinism ok {p}: {len(a)} worlds, {n} execution digests identical across shard counts 16/3 and two hash-seed sets")
PY
done
rm -rf "$T"
exit $fail
