#!/bin/sh
# Re-runs every externally written change kept under seeded/<id>/ against the check of the property it breaks (and any
# extra checks listed in its meta.json "caught_by"), with the machinery as it is now.  Writes selftest/seeded.results.
# usage: selftest/seeded.sh [pattern] [wall-seconds]
cd "$(dirname "$0")/.." || exit 2
pat=${1:-}; wall=${2:-60}
res=selftest/seeded.results.new
: > $res
for d in seeded/*${pat}*/; do
  id=$(basename "$d"); prop=${id%%-*}
  extra=$(/venv/bin/python -c "import json,sys; m=json.load(open('$d/meta.json')); print(' '.join(c for c in m.get('caught_by',[]) if c!='$prop'))")
  wt=/tmp/comasim-seeded-$id
  git -C /repo worktree remove --force "$wt" >/dev/null 2>&1
  git -C /repo worktree add -q --detach "$wt" HEAD || { echo "$id worktree-failed" >> $res; continue; }
  if ! git -C "$wt" apply "$(pwd)/$d/patch.diff" 2>/dev/null; then
    # written against an earlier commit of /repo (before a later fix: touched the same lines): use that commit as the base
    base=$(/venv/bin/python -c "import json,re; m=json.load(open('$d/meta.json')); print(re.findall(r'[0-9a-f]{7,}', m['confirmed']['applies_to'])[0])")
    git -C /repo worktree remove --force "$wt" >/dev/null 2>&1
    git -C /repo worktree add -q --detach "$wt" "$base" || { echo "$id worktree-failed" >> $res; continue; }
    if ! git -C "$wt" apply "$(pwd)/$d/patch.diff" 2>/dev/null; then echo "$id patch-does-not-apply" >> $res; git -C /repo worktree remove --force "$wt"; continue; fi
    id_note="(base $base)"
  else
    id_note=""
  fi
  line="$id$id_note"
  for p in $prop $extra; do
    COMA_REPO=$wt COMASIM_EARLY_STOP=1 COMASIM_MINIMISE=0 ./check $p --tier quick --wall $wall > /tmp/comasim-seeded-$id.$p.out 2>&1
    line="$line $p=$?"
    rm -f /tmp/comasim-seeded-$id.$p.out
  done
  echo "$line" >> $res
  git -C /repo worktree remove --force "$wt" >/dev/null 2>&1
done
git -C /repo worktree prune
find replays -name '*.json' -delete 2>/dev/null
if [ -z "$pat" ]; then mv $res selftest/seeded.results; else grep -v "^[^ ]*$pat" selftest/seeded.results > $res.keep; cat $res.keep $res | sort > selftest/seeded.results; rm -f $res $res.keep; fi
cat selftest/seeded.results
