#!/bin/sh
# usage: tools/eval_mutant.sh <PROP> <patch.diff> <demo.py> [extra props...]
# Verifies an externally supplied change: tests pass with it; demo passes clean / fails patched; then runs our check(s) on it.
prop=$1; patch=$2; demo=$3; shift 3
name=$(basename $(dirname $(dirname "$patch")))-$(basename $(dirname "$patch"))-$(basename "$patch" .diff)
wt=/tmp/comasim-ev-$name
cd "$(dirname "$0")/.." || exit 2
git -C /repo worktree remove --force "$wt" >/dev/null 2>&1
git -C /repo worktree add -q --detach "$wt" HEAD || exit 2
cp "$demo" "$wt/_demo.py"
( cd "$wt" && timeout 600 /venv/bin/python _demo.py > /tmp/$name.demo.clean 2>&1 ); dc=$?
if ! git -C "$wt" apply "$patch"; then echo "$name: patch does not apply"; git -C /repo worktree remove --force "$wt"; exit 2; fi
tests=$(cd "$wt" && /venv/bin/python -m pytest -q -p no:cacheprovider 2>&1 | tail -1)
( cd "$wt" && timeout 600 /venv/bin/python _demo.py > /tmp/$name.demo.patched 2>&1 ); dp=$?
echo "$name: tests: $tests | demo clean exit=$dc patched exit=$dp"
for p in $prop "$@"; do
  COMA_REPO=$wt COMASIM_EARLY_STOP=1 COMASIM_MINIMISE=0 ./check $p --tier quick ${WALL:+--wall $WALL} > /tmp/$name.$p.out 2>&1
  rc=$?
  echo "  check $p exit=$rc $(grep -m1 'clause=' /tmp/$name.$p.out | sed 's/^ *//' | cut -c1-220)"
  [ $rc -eq 2 ] && grep -m3 HARNESS /tmp/$name.$p.out | cut -c1-300
done
git -C /repo worktree remove --force "$wt" >/dev/null 2>&1
find replays -name '*.json' -mmin -30 -delete 2>/dev/null
