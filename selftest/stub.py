"""Stub fidelity: SimPool vs the real pathos ProcessPool.

 (1) N worlds are run through the real `coma` code path with the real pool (subprocess, real -c values) and through
     the simulator; every output file must be byte-identical apart from the '# hostname' and '# coma' lines.
 (2) Hand-written task functions must observe the same semantics under both pools: fresh closure copy per task,
     worker-global persistence across the tasks of one worker, inheritance of parent state at fork, result copy
     semantics, exception type and position, truncation of a 'w'-mode handle carried in the closure.
usage: PYTHONPATH=/verif /venv/bin/python selftest/stub.py [worlds] [seed]      exit 0 ok / 2 infidelity
"""
import os
import random
import shutil
import subprocess
import sys

sys.path.insert(0, os.path.dirname(os.path.dirname(os.path.abspath(__file__))))
from comasim import repo  # noqa: E402

REPO = repo.setup()
from comasim import props, sim, world  # noqa: E402

GLOBAL_COUNTER = 0
PARENT_STATE = "initial"


class Box:
    def __init__(self):
        self.n = 1


def semantics_probe(pool_factory, tmp):
    """Run the three probes through pool_factory(nodes) and return plain observations."""
    global PARENT_STATE
    obs = {}
    box = Box()

    def bump(x):
        global GLOBAL_COUNTER
        GLOBAL_COUNTER += 1
        box.n += 1
        return (x, box.n, GLOBAL_COUNTER > 0, os.getpid() != PARENT_PID, PARENT_STATE)

    pool = pool_factory(2)
    res = list(pool.imap(bump, range(6)))
    pool.clear()
    obs["fresh_closure_per_task"] = all(r[1] == 2 for r in res)
    obs["ran_in_other_process"] = all(r[3] for r in res)
    obs["parent_counter_untouched"] = (GLOBAL_COUNTER == 0 and box.n == 1)
    obs["state_at_round1"] = sorted({r[4] for r in res})
    PARENT_STATE = "changed-between-rounds"
    pool = pool_factory(2)
    res2 = list(pool.imap(bump, range(3)))
    pool.clear()
    obs["state_at_round2"] = sorted({r[4] for r in res2})
    PARENT_STATE = "initial"

    def seen(x):
        global GLOBAL_COUNTER
        GLOBAL_COUNTER += 1
        return GLOBAL_COUNTER

    pool = pool_factory(1)
    obs["worker_global_persists"] = list(pool.imap(seen, range(4)))
    pool.clear()

    sentinel = Box()

    def ident(x):
        return sentinel

    pool = pool_factory(1)
    r = list(pool.imap(ident, range(2)))
    pool.clear()
    obs["result_is_copy"] = (r[0] is not sentinel and r[0] is not r[1])

    def boom(x):
        if x == 2:
            raise KeyError("boom")
        return x

    pool = pool_factory(2)
    got = []
    try:
        for v in pool.imap(boom, range(5)):
            got.append(v)
    except BaseException as e:  # noqa: BLE001
        obs["exception"] = (type(e).__name__, got)
    path = os.path.join(tmp, "trunc.txt")
    with open(path, "w") as f:
        f.write("x" * 100)
    h = open(path, "w")
    h.write("y" * 10)
    h.flush()

    def touch(x):
        return h.name is not None

    pool = pool_factory(1)
    list(pool.imap(touch, range(1)))
    pool.clear()
    obs["w_handle_in_closure_truncates"] = os.path.getsize(path)
    h.close()
    return obs


PARENT_PID = os.getpid()


def run_semantics(tmp):
    from pathos.multiprocessing import ProcessPool
    real = semantics_probe(lambda n: ProcessPool(n), tmp)
    st = sim.SimState(sim.DecisionSource(1), "jitter")
    sim.STATE = st
    simulated = semantics_probe(lambda n: sim.SimPool(n), tmp)
    st.kill_all()
    return real, simulated


def main():
    n = int(sys.argv[1]) if len(sys.argv) > 1 else 30
    seed = int(sys.argv[2]) if len(sys.argv) > 2 else 11
    tmp = world.make_workdir("stub")
    bad = 0
    real, simulated = run_semantics(tmp)
    for k in sorted(real):
        ok = real[k] == simulated.get(k)
        print(f"semantics {k}: real={real[k]} sim={simulated.get(k)} {'ok' if ok else 'MISMATCH'}")
        bad += not ok
    rng0 = random.Random(seed)
    same = 0
    for w in range(n):
        rng = random.Random(rng0.randrange(1 << 40))
        case = props.gen_general(rng, aggressive=False)
        ex = props.gen_exec(rng, stream_p=0.0)
        ex["cpus"] = rng.choice([1, 2, 5, 16])
        ex["pb"] = True
        wd = os.path.join(tmp, f"w{w}")
        os.makedirs(wd)
        world.write_inputs(case, wd)
        out = world.run_execution(case, ex, wd)
        sim_files = dict(out["late_files"])
        world._clean_outputs(wd)
        argv = world.build_argv(case, ex)
        p = subprocess.run([sys.executable, "-c", "import sys; sys.path.insert(0, %r); from src.program import main; main()" % REPO]
                           + argv, cwd=wd, capture_output=True, text=True, timeout=600)
        real_files = {}
        for f in sorted(os.listdir(wd)):
            if f.startswith("out") and f.endswith(".xmap"):
                real_files[f] = open(os.path.join(wd, f), newline="").read()

        def norm(files):
            return {k: "\n".join(ln for ln in v.split("\n") if not ln.startswith(("# hostname", "# coma "))) for k, v in files.items()}
        if (p.returncode == 0) != (out["status"] == "ok") or norm(real_files) != norm(sim_files):
            bad += 1
            print(f"world {w}: real exit {p.returncode} files {sorted(real_files)}; sim {out['status']} files {sorted(sim_files)} MISMATCH")
            print(p.stderr[-500:])
        else:
            same += 1
        shutil.rmtree(wd, ignore_errors=True)
    # the repository's own sample data (106 molecules against one contig), all three files of mode 'all'
    data = os.path.join(REPO, "data", "NA12878_BSPQI")
    if os.path.isdir(data) and os.environ.get("COMASIM_STUB_SKIP_SAMPLE") != "1":
        wd = os.path.join(tmp, "sample")
        os.makedirs(wd)
        shutil.copy(os.path.join(data, "alignmolvref_contig24_r.cmap"), os.path.join(wd, "r_base.cmap"))
        shutil.copy(os.path.join(data, "alignmolvref_contig24_q.cmap"), os.path.join(wd, "q_base.cmap"))
        case = {"config": {}, "filesets": {}}
        ex = {"mode": "all", "cpus": 5, "profile": "jitter", "sched_seed": seed, "pb": True}
        out = world.run_execution(case, ex, wd)
        sim_files = dict(out["late_files"])
        world._clean_outputs(wd)
        p = subprocess.run([sys.executable, "-c", "import sys; sys.path.insert(0, %r); from src.program import main; main()" % REPO]
                           + world.build_argv(case, ex), cwd=wd, capture_output=True, text=True, timeout=1200)
        real_files = {f: open(os.path.join(wd, f), newline="").read() for f in sorted(os.listdir(wd))
                      if f.startswith("out") and f.endswith(".xmap")}

        def norm2(files):
            return {k: "\n".join(ln for ln in v.split("\n") if not ln.startswith(("# hostname", "# coma "))) for k, v in files.items()}
        ok = p.returncode == 0 and out["status"] == "ok" and norm2(real_files) == norm2(sim_files)
        nrec = sum(sum(1 for ln in v.split("\n") if ln and not ln.startswith("#")) for v in sim_files.values())
        print(f"sample data (mode all, -c 5): {'byte-identical' if ok else 'MISMATCH'} between the real pool and SimPool, "
              f"{len(sim_files)} files, {nrec} records")
        bad += not ok
    shutil.rmtree(tmp, ignore_errors=True)
    print(f"stub fidelity: {same}/{n} worlds byte-identical between the real pathos pool and SimPool; {bad} mismatches")
    return 2 if bad else 0


if __name__ == "__main__":
    sys.exit(main())
