#!/bin/sh
# usage: sweep.sh <wall-seconds> <seed> <outdir> PROP...   (thorough-tier generators under a wall cap, one after another;
# keeps each check's output and evidence, then prints one summary line per property incl. the causes of aborted executions)
wall=$1; seed=$2; out=$3; shift 3
mkdir -p "$out"
for p in "$@"; do
  VERIF_SEED=$seed ./check $p --tier thorough --worlds 1000000 --wall $wall > "$out/$p-$seed.out" 2>&1 </dev/null
  echo "exit $?" >> "$out/$p-$seed.out"
  cp evidence/$p.json "$out/$p-$seed.evidence.json" 2>/dev/null
  /venv/bin/python - "$out/$p-$seed.out" "$out/$p-$seed.evidence.json" <<'PY'
import json, sys
out = open(sys.argv[1]).read().strip().split("\n")
try:
    ev = json.load(open(sys.argv[2]))["coverage"]
    aborts = {k: v for k, v in ev["faults_fired"].items() if k.startswith("abort")}
except Exception:
    aborts = "?"
viol = [ln[:200] for ln in out if ln.startswith("VIOLATION") or ln.startswith("HARNESS") or ln.startswith("  clause=")]
print(out[-2][:170], out[-1], "aborts:", aborts)
for v in viol:
    print("    ", v)
PY
done
