#!/bin/sh
# run every claimed check at a tier, one after another; usage: runall.sh quick|thorough [seed] [outdir]
tier=${1:-quick}; seed=${2:-0}; out=${3:-/tmp/comasim-runall}
mkdir -p "$out"
for p in C01 C02 C03 C04 C05 C06 C07 C08 C09 C10 C11 C17 C18; do
  s=$(date +%s)
  VERIF_SEED=$seed ./check $p --tier $tier > "$out/$p.out" 2>&1 </dev/null
  echo "$p exit=$? wall=$(( $(date +%s) - s ))s $(tail -1 "$out/$p.out" | cut -c1-200)"
done
