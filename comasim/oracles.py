"""Oracles.  Each function returns a list of violations: dicts with clause, signature, detail.
Inputs are file text (parsed by fmt.parse_xmap / fmt.parse_cmap), tapped plain data, and the parameter
values the harness itself put on the command line.  Nothing here imports `src`."""
from __future__ import annotations

import re

from . import fmt

DEFAULTS = {"-sp": 1000, "-dp": 1.0, "-su": -250, "-d": 1500, "-ms": 1000, "-bs": 1200, "-diff": 100000, "-p": 3}


def V(clause, detail, signature="", **extra):
    v = {"clause": clause, "detail": detail, "signature": signature}
    v.update(extra)
    return v


def cfgval(cfg, k):
    return cfg.get(k, DEFAULTS[k])


class Maps:
    """Oracle view of one fileset, built from the CMAP *text* the harness wrote."""

    def __init__(self, rtext, qtext, qids=None, rids=None):
        self.refs = {k: m for k, m in fmt.parse_cmap(rtext).items() if m["pos"]}
        self.queries = {k: m for k, m in fmt.parse_cmap(qtext).items() if m["pos"]}
        if qids:
            self.queries = {k: m for k, m in self.queries.items() if k in set(qids)}
        if rids:
            self.refs = {k: m for k, m in self.refs.items() if k in set(rids)}


# ----------------------------------------------------------------------------------------------------------
# C01
def matching_problems(pairs, orientation, nref=None, nqry=None):
    """Clauses of C01 that a pair list violates (first offending clause per kind)."""
    out = []
    if not pairs:
        return [("nonempty", "record has no pair")]
    if nref is not None:
        bad = [p for p in pairs if not (1 <= p[0] <= nref)]
        if bad:
            out.append(("ref-exists", f"reference label {bad[0][0]} not in 1..{nref}"))
    if nqry is not None:
        bad = [p for p in pairs if not (1 <= p[1] <= nqry)]
        if bad:
            out.append(("qry-exists", f"query label {bad[0][1]} not in 1..{nqry}"))
    rs = [p[0] for p in pairs]
    qs = [p[1] for p in pairs]
    if len(set(rs)) != len(rs):
        d = sorted(r for r in set(rs) if rs.count(r) > 1)
        out.append(("ref-unique", f"reference label {d[0]} used {rs.count(d[0])} times"))
    if len(set(qs)) != len(qs):
        d = sorted(q for q in set(qs) if qs.count(q) > 1)
        out.append(("qry-unique", f"query label {d[0]} used {qs.count(d[0])} times"))
    for a, b in zip(pairs, pairs[1:]):
        if not b[0] > a[0]:
            if len(set(rs)) == len(rs):
                out.append(("ref-ascending", f"pairs {a} then {b}: reference not strictly ascending"))
            break
    for a, b in zip(pairs, pairs[1:]):
        ok = b[1] > a[1] if orientation == "+" else b[1] < a[1]
        if not ok:
            if len(set(qs)) == len(qs):
                out.append(("qry-monotone", f"pairs {a} then {b}: query not strictly "
                                            f"{'increasing' if orientation == '+' else 'decreasing'} for '{orientation}'"))
            break
    return out


def is_valid_matching(pairs, orientation, nref=None, nqry=None):
    return not matching_problems(pairs, orientation, nref, nqry)


def _rec_sig(rec, fname, extra=""):
    return f"{fname}|rest={rec.get('AlignedRest')}|ori={rec.get('Orientation')}|{extra}"


def c01_record(rec, maps, fname):
    out = []
    try:
        ref = maps.refs.get(int(rec["RefContigID"]))
        qry = maps.queries.get(int(rec["QryContigID"]))
    except ValueError:
        ref = qry = None
    nref = len(ref["pos"]) if ref else None
    nqry = len(qry["pos"]) if qry else None
    for clause, detail in matching_problems(rec["pairs"], rec.get("Orientation"), nref, nqry):
        out.append(V(clause, detail, _rec_sig(rec, fname), record=rec["line"], file=fname))
    return out


def row_pairs(row):
    return [(p[1], p[2]) for s in row["segs"] for p in s["pos"] if p[0] == "P"]


def c01_candidate(cand, maps):
    row = cand["row"]
    pairs = row_pairs(row)
    if not pairs:
        return []
    ref = maps.refs.get(cand["ref"])
    qry = maps.queries.get(cand["qry"])
    out = []
    ori = "-" if row["rev"] else "+"
    for clause, detail in matching_problems(pairs, ori, len(ref["pos"]) if ref else None,
                                            len(qry["pos"]) if qry else None):
        out.append(V("candidate-" + clause, detail, "candidate|" + c01_diagnose(row, clause, ori),
                     record=f"q={cand['qry']} r={cand['ref']} pairs={pairs}"))
    return out


# ----------------------------------------------------------------------------------------------------------
# C02
def _close(text, value, tol=0.05):
    try:
        return abs(float(text) - value) <= tol + 1e-6
    except (TypeError, ValueError):
        return False


def c02_file(parsed, maps, fname):
    out = []
    for k, rec in enumerate(parsed["records"], start=1):
        sig = _rec_sig(rec, fname)

        def bad(clause, detail):
            out.append(V(clause, detail, sig, record=rec["line"], file=fname))

        if rec.get("XmapEntryID") != str(k):
            bad("entry-id", f"XmapEntryID {rec.get('XmapEntryID')!r} at position {k}")
        if rec.get("Orientation") not in ("+", "-"):
            bad("orientation", f"Orientation {rec.get('Orientation')!r}")
            continue
        if rec.get("LabelChannel") != "1":
            bad("label-channel", f"LabelChannel {rec.get('LabelChannel')!r}")
        try:
            rid, qid = int(rec["RefContigID"]), int(rec["QryContigID"])
        except ValueError:
            bad("ids", "non-integer contig id")
            continue
        ref, qry = maps.refs.get(rid), maps.queries.get(qid)
        if ref is None:
            bad("ref-id", f"RefContigID {rid} is not an input reference")
        if qry is None:
            bad("qry-id", f"QryContigID {qid} is not an input query")
        if ref is None or qry is None:
            continue
        if matching_problems(rec["pairs"], rec["Orientation"], len(ref["pos"]), len(qry["pos"])):
            continue  # counted by the caller as skipped_c01_invalid
        if not _close(rec["RefLen"], int(ref["length"]), 0.0):
            bad("ref-len", f"RefLen {rec['RefLen']} but reference length is {int(ref['length'])}")
        qfirst, qlast = qry["pos"][0], qry["pos"][-1]
        if not _close(rec["QryLen"], qlast - qfirst + 1):
            bad("qry-len", f"QryLen {rec['QryLen']} but last-first+1 = {qlast - qfirst + 1:.1f}")
        pairs = rec["pairs"]
        if not _close(rec["RefStartPos"], ref["pos"][pairs[0][0] - 1]):
            bad("ref-start", f"RefStartPos {rec['RefStartPos']} but label {pairs[0][0]} is at {ref['pos'][pairs[0][0] - 1]}")
        if not _close(rec["RefEndPos"], ref["pos"][pairs[-1][0] - 1]):
            bad("ref-end", f"RefEndPos {rec['RefEndPos']} but label {pairs[-1][0]} is at {ref['pos'][pairs[-1][0] - 1]}")
        qmin = min(p[1] for p in pairs)
        qmax = max(p[1] for p in pairs)
        if rec["Orientation"] == "+":
            es, ee = qry["pos"][qmin - 1] - qfirst, qry["pos"][qmax - 1] - qfirst
        else:
            es, ee = qlast - qry["pos"][qmin - 1], qlast - qry["pos"][qmax - 1]
        if not _close(rec["QryStartPos"], es):
            bad("qry-start", f"QryStartPos {rec['QryStartPos']} expected {es:.1f}")
        if not _close(rec["QryEndPos"], ee):
            bad("qry-end", f"QryEndPos {rec['QryEndPos']} expected {ee:.1f}")
        try:
            s, e = float(rec["QryStartPos"]), float(rec["QryEndPos"])
            if rec["Orientation"] == "+" and not s <= e:
                bad("qry-order", f"'+' record with QryStartPos {s} > QryEndPos {e}")
            if rec["Orientation"] == "-" and not s >= e:
                bad("qry-order", f"'-' record with QryStartPos {s} < QryEndPos {e}")
        except ValueError:
            bad("qry-order", "non-numeric query coordinates")
    return out


# ----------------------------------------------------------------------------------------------------------
# C03
_TOK = re.compile(r"(\d+)([MDI])")


def c03_replay(hitenum, pairs, orientation):
    """Returns list of (clause, detail)."""
    out = []
    if not pairs:
        return out
    if hitenum == "":
        return [("non-empty", f"record with {len(pairs)} pair(s) has an empty HitEnum")]
    toks = _TOK.findall(hitenum)
    if "".join(n + op for n, op in toks) != hitenum:
        return [("syntax", f"HitEnum {hitenum!r} is not a sequence of <count><M|D|I>")]
    if any(int(n) < 1 for n, _ in toks):
        out.append(("syntax", f"zero-length run in {hitenum!r}"))
    if toks[0][1] != "M":
        out.append(("starts-with-M", f"HitEnum {hitenum!r}"))
    if toks[-1][1] != "M":
        out.append(("ends-with-M", f"HitEnum {hitenum!r}"))
    for a, b in zip(toks, toks[1:]):
        if a[1] == b[1]:
            out.append(("adjacent-runs-differ", f"HitEnum {hitenum!r} repeats {a[1]}"))
            break
    step = 1 if orientation == "+" else -1
    r, q = pairs[0]
    got = []
    for n, op in toks:
        for _ in range(int(n)):
            if op == "M":
                got.append((r, q))
                r += 1
                q += step
            elif op == "D":
                r += 1
            else:
                q += step
    if got != list(pairs):
        k = next((i for i, (a, b) in enumerate(zip(got, pairs)) if a != b), min(len(got), len(pairs)))
        out.append(("replay", f"HitEnum {hitenum!r} replays to {len(got)} pairs, listed {len(pairs)}; first difference at "
                              f"index {k}: replayed {got[k] if k < len(got) else None} listed {pairs[k] if k < len(pairs) else None}"))
    return out


def c03_file(parsed, maps, fname):
    out, skipped = [], 0
    for rec in parsed["records"]:
        ref = maps.refs.get(_int(rec.get("RefContigID")))
        qry = maps.queries.get(_int(rec.get("QryContigID")))
        if ref is None or qry is None or matching_problems(rec["pairs"], rec.get("Orientation"),
                                                           len(ref["pos"]), len(qry["pos"])):
            skipped += 1
            continue
        for clause, detail in c03_replay(rec.get("HitEnum", ""), rec["pairs"], rec["Orientation"]):
            out.append(V(clause, detail, f"pairs={'1' if len(rec['pairs']) == 1 else 'n'}", record=rec["line"], file=fname))
    return out, skipped


def _int(x):
    try:
        return int(x)
    except (TypeError, ValueError):
        return None


# ----------------------------------------------------------------------------------------------------------
# C04
def c04_row(row, conf_text, maps, cfg, what):
    """row: tapped row summary; conf_text: Confidence column text or None (candidates)."""
    out = []
    sp, dp, su, d = (cfgval(cfg, k) for k in ("-sp", "-dp", "-su", "-d"))
    ref, qry = maps.refs.get(row["r"]), maps.queries.get(row["q"])
    if ref is None or qry is None:
        return out
    qfirst, qlast = qry["pos"][0], qry["pos"][-1]
    nsegs = sum(1 for s in row["segs"] if s["pos"])
    sig = f"{what}|segs={min(nsegs, 3)}|rest={row['rest']}"

    def bad(clause, detail):
        out.append(V(clause, detail, sig, record=f"q={row['q']} r={row['r']} rev={row['rev']} conf={row['conf']}"))

    total = 0.0
    seen_pairs = set()
    for si, s in enumerate(row["segs"]):
        if not s["pos"]:
            if abs(s["score"] or 0) > 1e-9:
                bad("sum", f"empty segment {si} carries score {s['score']}")
            continue
        peak = s["peak"]
        seg_sum = 0.0
        rs_paired, qs_paired, rs_un, qs_un = [], [], [], []
        for p in s["pos"]:
            if p[0] == "P":
                _, rsite, qsite = p[0], p[1], p[2]
                if not (1 <= rsite <= len(ref["pos"]) and 1 <= qsite <= len(qry["pos"])):
                    bad("unpaired", f"segment {si}: pair ({rsite},{qsite}) names a label that does not exist")
                    continue
                rpos = ref["pos"][rsite - 1]
                qo = (qlast - qry["pos"][qsite - 1]) if row["rev"] else (qry["pos"][qsite - 1] - qfirst)
                off = qo - (rpos - peak)
                if abs(off) > d + 1e-6:
                    bad("pair-offset", f"segment {si}: pair ({rsite},{qsite}) is {off:.1f} from the peak diagonal, -d is {d}")
                seg_sum += sp - dp * abs(off)
                rs_paired.append(rsite)
                qs_paired.append(qsite)
                if (rsite, qsite) in seen_pairs:
                    bad("no-double", f"pair ({rsite},{qsite}) occurs in two segments")
                seen_pairs.add((rsite, qsite))
            elif p[0] == "R":
                rs_un.append(p[1])
                seg_sum += su
            elif p[0] == "Q":
                qs_un.append(p[1])
                seg_sum += su
            else:
                bad("unpaired", f"segment {si}: unknown position kind {p!r}")
        for site in rs_un:
            if not 1 <= site <= len(ref["pos"]):
                bad("unpaired", f"segment {si}: unpaired reference label {site} does not exist")
        for site in qs_un:
            if not 1 <= site <= len(qry["pos"]):
                bad("unpaired", f"segment {si}: unpaired query label {site} does not exist")
        allr, allq = rs_paired + rs_un, qs_paired + qs_un
        if len(set(allr)) != len(allr):
            dup = sorted(x for x in set(allr) if allr.count(x) > 1)[0]
            bad("no-double", f"segment {si}: reference label {dup} counted {allr.count(dup)} times")
        if len(set(allq)) != len(allq):
            dup = sorted(x for x in set(allq) if allq.count(x) > 1)[0]
            bad("no-double", f"segment {si}: query label {dup} counted {allq.count(dup)} times")
        if rs_paired:
            # "inside the span" is geometric: strictly between the coordinates of the segment's outermost pairs (a label that
            # coincides with an outermost paired label - twin labels - sits on the boundary, not inside)
            rlo, rhi = ref["pos"][min(rs_paired) - 1], ref["pos"][max(rs_paired) - 1]
            qa, qb = qry["pos"][min(qs_paired) - 1], qry["pos"][max(qs_paired) - 1]
            miss = [x for x in range(min(rs_paired) + 1, max(rs_paired)) if x not in set(allr) and rlo < ref["pos"][x - 1] < rhi]
            if miss:
                bad("span-complete", f"segment {si}: reference label(s) {miss[:5]} inside the span "
                                     f"{min(rs_paired)}..{max(rs_paired)} are neither paired nor penalised")
            miss = [x for x in range(min(qs_paired) + 1, max(qs_paired)) if x not in set(allq)
                    and min(qa, qb) < qry["pos"][x - 1] < max(qa, qb)]
            if miss:
                bad("span-complete", f"segment {si}: query label(s) {miss[:5]} inside the span "
                                     f"{min(qs_paired)}..{max(qs_paired)} are neither paired nor penalised")
        if abs(seg_sum - s["score"]) > 1e-6 * max(1.0, abs(seg_sum)):
            bad("sum", f"segment {si}: stored score {s['score']} but recomputed {seg_sum:.4f}")
        total += seg_sum
    if abs(total - row["conf"]) > 1e-6 * max(1.0, abs(total)):
        bad("sum", f"stored confidence {row['conf']} but recomputed {total:.4f}")
    if conf_text is not None:
        try:
            if abs(float(conf_text) - total) > 0.005 + 1e-9 * max(1.0, abs(total)):
                bad("sum", f"Confidence column {conf_text} but recomputed {total:.4f}")
        except ValueError:
            bad("sum", f"Confidence column {conf_text!r} is not a number")
    return out


# ----------------------------------------------------------------------------------------------------------
# C07
def c07_wellformed(text, fname):
    out = []
    parsed = fmt.parse_xmap(text)
    for p in parsed["problems"]:
        out.append(V("well-formed", f"{fname}: {p}", "well-formed", file=fname))
    if parsed["cols"] and parsed["cols"] != fmt.XMAP_COLS:
        out.append(V("well-formed", f"{fname}: columns {parsed['cols']}", "well-formed-cols", file=fname))
    if not any(h.startswith("# XMAP File Version") for h in parsed["header"]):
        out.append(V("well-formed", f"{fname}: no XMAP version header line", "well-formed-header", file=fname))
    return out, parsed


def expected_files(mode):
    return {"best": ["out.xmap"], "separate": ["out.xmap", "out_1.xmap"], "joined": ["out.xmap", "out_1.xmap"],
            "all": ["out.xmap", "out_1.xmap", "out_2.xmap"]}[mode]


# ----------------------------------------------------------------------------------------------------------
# C18
def c18_file(parsed, rb, maps, fname):
    out = []
    sig = fname

    def bad(clause, detail, rec=None):
        out.append(V(clause, detail, sig, record=rec["line"] if rec else "", file=fname))

    if not rb.get("ok"):
        bad("reader-raises", f"reader raised {rb.get('type')}: {rb.get('msg')}")
        return out
    als = rb["alignments"]
    if len(als) != len(parsed["records"]):
        bad("count", f"{len(parsed['records'])} records written, {len(als)} alignments read")
        return out
    for rec, a in zip(parsed["records"], als):
        def num(x):
            return int(float(x))
        try:
            exp = {"id": int(rec["XmapEntryID"]), "q": int(rec["QryContigID"]), "r": int(rec["RefContigID"]),
                   "qs": num(rec["QryStartPos"]), "qe": num(rec["QryEndPos"]), "rs": num(rec["RefStartPos"]),
                   "re": num(rec["RefEndPos"]), "rev": rec["Orientation"] == "-",
                   "qlen": num(rec["QryLen"]), "rlen": num(rec["RefLen"])}
        except (ValueError, KeyError):
            continue
        for k, v in exp.items():
            if a.get(k) != v:
                bad("field-" + k, f"{k}: written {v!r}, read {a.get(k)!r}", rec)
        try:
            if abs(float(a["conf"]) - float(rec["Confidence"])) > 1e-9:
                bad("field-conf", f"confidence written {rec['Confidence']} read {a['conf']}", rec)
        except (TypeError, ValueError):
            bad("field-conf", f"confidence written {rec['Confidence']} read {a['conf']!r}", rec)
        cig = a.get("cigar")
        if cig == "nan":
            cig = ""
        if cig != rec["HitEnum"]:
            bad("field-hitenum", f"HitEnum written {rec['HitEnum']!r} read {a.get('cigar')!r}", rec)
        got = [(p[0], p[2]) for p in a["pairs"]]
        if got != rec["pairs"]:
            bad("pairs", f"pairs written {rec['pairs'][:6]}.. read {got[:6]}..", rec)
            continue
        ref, qry = maps.refs.get(exp["r"]), maps.queries.get(exp["q"])
        if ref is None or qry is None:
            continue
        qfirst = qry["pos"][0]
        for rsite, rpos, qsite, qpos in a["pairs"]:
            if 1 <= rsite <= len(ref["pos"]) and abs(float(rpos) - ref["pos"][rsite - 1]) > 1e-6:
                bad("pair-coord", f"reference label {rsite} read at {rpos}, map says {ref['pos'][rsite - 1]}", rec)
                break
            if 1 <= qsite <= len(qry["pos"]) and abs(float(qpos) - (qry["pos"][qsite - 1] - qfirst)) > 1e-6:
                bad("pair-coord", f"query label {qsite} read at {qpos}, map says {qry['pos'][qsite - 1] - qfirst}", rec)
                break
    return out


# ----------------------------------------------------------------------------------------------------------
def c01_diagnose(row, clause, orientation):
    """Structural root-cause signature of a C01 violation in a written row (from the writer tap):
    which segments hold the two offending pairs and how they relate in the chain."""
    segs = [(i, [(p[1], p[2]) for p in s["pos"] if p[0] == "P"], s["peak"]) for i, s in enumerate(row["segs"])]
    flat = [(si, pr) for si, prs, _ in segs for pr in prs]
    a = b = None
    if clause in ("ref-unique", "qry-unique"):
        k = 0 if clause == "ref-unique" else 1
        seen = {}
        for si, pr in flat:
            if pr[k] in seen:
                a, b = seen[pr[k]], (si, pr)
                break
            seen[pr[k]] = (si, pr)
    elif clause in ("ref-ascending", "qry-monotone"):
        for (s1, p1), (s2, p2) in zip(flat, flat[1:]):
            if clause == "ref-ascending":
                bad = not p2[0] > p1[0]
            else:
                bad = not (p2[1] > p1[1] if orientation == "+" else p2[1] < p1[1])
            if bad:
                a, b = (s1, p1), (s2, p2)
                break
    if a is None:
        return "unlocated"
    nonempty = [i for i, prs, _ in segs if prs]
    geo = ""
    if a[0] != b[0]:
        # do the two segments that hold the offending pairs overlap on the reference?
        ra = [pr[0] for pr in segs[a[0]][1]]
        rb = [pr[0] for pr in segs[b[0]][1]]
        geo = "|refs-overlap" if max(min(ra), min(rb)) <= min(max(ra), max(rb)) else "|refs-disjoint"
    if a[0] == b[0]:
        rel = "within-one-segment"
    else:
        ia, ib = nonempty.index(a[0]), nonempty.index(b[0])
        between_nonempty = abs(ia - ib) - 1
        emptied_between = any(not prs for i, prs, _ in segs if min(a[0], b[0]) < i < max(a[0], b[0]))
        if between_nonempty > 0:
            rel = "non-consecutive-segments"
        elif emptied_between:
            rel = "neighbours-of-an-emptied-segment"
        else:
            rel = "consecutive-segments"
    return rel + geo


# ----------------------------------------------------------------------------------------------------------
def seed_rank(ref_pos, qry_pos, true_start, peaks_count=3, resolution=1400, blur=1, min_peak_distance=20000):
    """Independent re-computation of the seeding step (for classifying a C06 finding, not for the verdict): vectorise both
    maps at the primary resolution, blur, normalised cross-correlation on both strands, peaks above 0.75 of the maximum,
    the `peaks_count` highest per strand, then the `peaks_count` best over both strands by (height - noise level).
    Returns "refined" if a seed within one bin of the true placement is among them, "below-cut" if the true placement has a
    peak that ranks below them, "tie-at-cut" if it ties with the last one kept, "no-peak" if it has no peak at all."""
    import numpy as np
    from scipy.signal import find_peaks

    def vec(pos):
        n = int(pos[-1] // resolution) + 1
        v = np.zeros(n, dtype=int)
        for p in pos:
            if p >= 0:
                v[min(n - 1, int(p // resolution))] = 1
        b = v.copy()
        for s in range(1, blur + 1):
            b[s:] |= v[:-s]
            b[:-s] |= v[s:]
        return b

    q0 = [p - qry_pos[0] for p in qry_pos]
    rv, qv = vec(ref_pos), vec(q0)
    if len(qv) > len(rv):
        return "no-peak"
    cands = []
    true_idx = int(true_start // resolution)
    true_score = None
    for strand, q in (("+", qv), ("-", qv[::-1])):
        corr = np.correlate(rv, q, "valid").astype(float)
        norm = (np.correlate(rv, np.ones(len(q), dtype=int), "valid") + q.sum()) / 2.0
        corr = corr / norm
        nz = corr[corr != 0]
        noise = float(np.sqrt(np.mean(nz ** 2))) if len(nz) else 0.0
        idx, props = find_peaks(corr, height=0.75 * corr.max(), width=(None, None), rel_height=0.5,
                                distance=min_peak_distance / resolution)
        top = sorted(zip(props["peak_heights"], idx), reverse=True)[:peaks_count]
        for h, i in top:
            cands.append((h - noise, int(i), strand))
        for h, i in zip(props["peak_heights"], idx):
            if abs(int(i) - true_idx) <= 1:
                true_score = max(true_score or -1e9, h - noise)
    cands.sort(reverse=True)
    kept = cands[:peaks_count]
    if any(abs(i - true_idx) <= 1 for _, i, _ in kept):
        return "refined"
    if true_score is None:
        return "no-peak"
    if kept and abs(true_score - kept[-1][0]) <= 1e-9:
        return "tie-at-cut"
    return "below-cut"
