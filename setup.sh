#!/bin/sh
# Offline setup: nothing to build or install; verify the interpreter and that `src` resolves to the tree under test.
set -e
cd "$(dirname "$0")"
PYTHONPATH="$(pwd)" /venv/bin/python - <<'PY'
import numpy, scipy, pandas, dill, p_tqdm, tqdm  # noqa
from comasim import repo
print("comasim setup ok; src under", repo.setup())
PY
mkdir -p evidence replays
