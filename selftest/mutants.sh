#!/bin/sh
# Sensitivity self-test.  For every selftest/mutants/<PROP>-<name>.patch: make a scratch worktree of /repo, apply the patch,
# run the repository's test suite on it (must still pass), point the named check at it with COMA_REPO, and record the exit
# code (1 = caught).  Scratch worktrees live under /tmp and are removed after each mutant.
# usage: selftest/mutants.sh [pattern] [wall-seconds]      results: selftest/mutants.results
cd "$(dirname "$0")/.." || exit 2
pat=${1:-}; wall=${2:-60}
res=selftest/mutants.results.new
: > $res
for patch in selftest/mutants/*${pat}*.patch; do
  name=$(basename "$patch" .patch); prop=${name%%-*}
  wt=/tmp/comasim-mut-$name
  git -C /repo worktree remove --force "$wt" >/dev/null 2>&1
  git -C /repo worktree add -q --detach "$wt" HEAD || { echo "$name worktree-failed" >> $res; continue; }
  if ! git -C "$wt" apply "$(pwd)/$patch" 2>/dev/null; then echo "$name patch-does-not-apply" >> $res; git -C /repo worktree remove --force "$wt"; continue; fi
  tests=$(cd "$wt" && /venv/bin/python -m pytest -q -p no:cacheprovider -x 2>&1 | tail -1)
  case "$tests" in *failed*|*error*) t=tests-FAIL;; *) t=tests-pass;; esac
  COMA_REPO=$wt COMASIM_EARLY_STOP=1 COMASIM_MINIMISE=0 ./check $prop --tier quick --wall $wall > /tmp/comasim-mut-$name.out 2>&1
  rc=$?
  clause=$(grep -m1 "clause=" /tmp/comasim-mut-$name.out | sed 's/^ *//' | cut -c1-160)
  echo "$name $t exit=$rc $clause" >> $res
  git -C /repo worktree remove --force "$wt" >/dev/null 2>&1
  rm -f /tmp/comasim-mut-$name.out
  find replays -name "$prop-*" -newer $res -delete 2>/dev/null
done
git -C /repo worktree prune
if [ -z "$pat" ]; then mv $res selftest/mutants.results; else grep -v -F -f /dev/null selftest/mutants.results 2>/dev/null | grep -v "$pat" > $res.keep; cat $res.keep $res | sort > selftest/mutants.results; rm -f $res $res.keep; fi
cat selftest/mutants.results
