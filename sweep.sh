#!/bin/sh
# usage: sweep.sh <wall-seconds> <seed> <outdir> PROP...   (runs thorough-tier generators with a wall cap, one after another)
wall=$1; seed=$2; out=$3; shift 3
mkdir -p "$out"
for p in "$@"; do
  VERIF_SEED=$seed ./check $p --tier thorough --worlds 100000 --wall $wall > "$out/$p-$seed.out" 2>&1 </dev/null
  echo "exit $?" >> "$out/$p-$seed.out"
done
