"""Shard process: runs an assigned set of worlds of one property, serially, each execution in a freshly forked
world process.  Started by the driver with its own PYTHONHASHSEED.  Also hosts --replay and --minimise, which
must run in a fresh interpreter under a chosen hash seed.

    python -m comasim.shard run      --prop C09 --tier quick --seed 0 --shard 3 --nshards 16 --worlds 64 --deadline T --out F
    python -m comasim.shard replay   --file replays/x.json --out F
    python -m comasim.shard minimise --file replays/x.json --out F
"""
from __future__ import annotations

import argparse
import copy
import hashlib
import json
import os
import random
import shutil
import sys
import time
import traceback

from . import repo

repo.setup()

from . import props, sim, world  # noqa: E402
import src.program  # noqa: E402,F401  warm: every world process is forked from here
import src.args  # noqa: E402,F401
from . import taps  # noqa: E402,F401


class HarnessFailure(Exception):
    pass


def subseed(seed, prop, w):
    return int(hashlib.sha256(f"{seed}/{prop}/{w}".encode()).hexdigest()[:16], 16)


class Ctx:
    def __init__(self, prop_id, workdir, recheck=True, secondary=False):
        self.prop_id = prop_id
        self.workdir = workdir
        self.recheck = recheck
        self.secondary = secondary
        self.case = None
        self.texts = {}
        self.n_exec = 0
        self.n_recheck = 0
        self.sim_time = 0.0
        self.wall_exec = 0.0
        self.short_reads = 0
        self.stream_profiles = {}
        self.faults = {}
        self.signatures = set()
        self.nodes_hist = {}
        self.profile_hist = {}
        self.mode_hist = {}
        self.late_diffs = 0
        self.aborted = 0
        self.exec_digests = set()
        self.abort_samples = []
        self.last_norm_files = None
        self.last_files_digest = None
        self.sub = 0

    def digest(self, obj):
        return world.digest(obj)

    def begin_world(self, case, sub):
        self.case = case
        self.sub = sub
        self.world_exec = 0
        self.world_digests = []
        for n in os.listdir(self.workdir):
            p = os.path.join(self.workdir, n)
            if os.path.isdir(p):
                shutil.rmtree(p, ignore_errors=True)
            else:
                os.unlink(p)
        if "filesets" in case:
            self.texts = world.write_inputs(case, self.workdir)

    def add_fileset(self, name, fs):
        self.case["filesets"][name] = fs
        self.texts = world.write_inputs(self.case, self.workdir)

    def save_decoys(self, out):
        for n in os.listdir(self.workdir):
            if n.startswith("decoy_"):
                os.unlink(os.path.join(self.workdir, n))
        for n, text in out.get("late_files", {}).items():
            with open(os.path.join(self.workdir, "decoy_" + n), "w", newline="") as f:
                f.write(text)

    def count_stream(self, profile):
        self.stream_profiles[profile] = self.stream_profiles.get(profile, 0) + 1
        self.n_exec += 1

    def execute(self, ex):
        out = world.run_execution(self.case, ex, self.workdir)
        if out["status"] == "harness":
            raise HarnessFailure(json.dumps(out.get("exc"))[:3000])
        self.n_exec += 1
        self.world_exec += 1
        self.wall_exec += out.get("wall_s", 0)
        self.sim_time += out.get("sim_time", 0.0)
        ex["decisions"] = out.get("decisions")
        st = out.get("stats", {})
        for k in ("assign_choices", "inversions", "stalls", "tasks", "workers_forked", "bytes_task", "bytes_result",
                  "task_exceptions", "bytes_destroyed", "worker_output_handles", "rounds_with_tasks", "unordered_maps",
                  "late_starts", "fd_limited_workers", "stale_pool_reuses"):
            self.faults[k] = self.faults.get(k, 0) + st.get(k, 0)
        for k in ("max_overtaken", "max_tasks_one_worker"):
            self.faults[k] = max(self.faults.get(k, 0), st.get(k, 0))
        self.faults["short_reads"] = self.faults.get("short_reads", 0) + out.get("short_reads", 0)
        if ex.get("stream"):
            self.faults["stream_executions"] = self.faults.get("stream_executions", 0) + 1
            if not ex["stream"].get("seekable", True):
                self.faults["nonseekable_executions"] = self.faults.get("nonseekable_executions", 0) + 1
        if ex.get("keep_outputs"):
            self.faults["reused_output_path_executions"] = self.faults.get("reused_output_path_executions", 0) + 1
        if ex.get("stale"):
            self.faults["stale_output_executions"] = self.faults.get("stale_output_executions", 0) + 1
        if ex.get("prelude"):
            self.faults["prelude_run_executions"] = self.faults.get("prelude_run_executions", 0) + 1
        if ex.get("fd_margin"):
            self.faults["fd_limited_executions"] = self.faults.get("fd_limited_executions", 0) + 1
        if ex.get("cpus") is None:
            self.faults["default_cpus_executions"] = self.faults.get("default_cpus_executions", 0) + 1
        for n in st.get("nodes", []):
            self.nodes_hist[n] = self.nodes_hist.get(n, 0) + 1
        self.profile_hist[ex.get("profile")] = self.profile_hist.get(ex.get("profile"), 0) + 1
        self.mode_hist[ex.get("mode")] = self.mode_hist.get(ex.get("mode"), 0) + 1
        for s in st.get("signatures", []):
            self.signatures.add(world.digest(s))
        if out.get("fallbacks"):
            self.faults["scripted_fallbacks"] = self.faults.get("scripted_fallbacks", 0) + out["fallbacks"]
        if out["status"] != "ok":
            self.aborted += 1
            e = out.get("exc") or {}
            key = f"abort:{e.get('type')}:{e.get('frame') or e.get('where')}"
            self.faults[key] = self.faults.get(key, 0) + 1
            if len(self.abort_samples) < 3:
                self.abort_samples.append({"argv": out.get("argv"), "type": e.get("type"), "msg": e.get("msg"), "frame": e.get("frame"),
                                           "tb": (e.get("tb") or "")[-600:]})
        if out.get("files") != out.get("late_files"):
            self.late_diffs += 1
        self.last_norm_files = world.normalised_files(out, self.workdir)
        self.last_files_digest = world.digest(self.last_norm_files)
        d = world.execution_digest(out, self.workdir)
        self.exec_digests.add(d)
        self.world_digests.append(d)
        # determinism self-check on ~5 % of executions (selected by hashing, never by the PRNG)
        if self.recheck and int(hashlib.sha256(f"{self.sub}/{self.world_exec}".encode()).hexdigest()[:8], 16) % 20 == 0:
            ex2 = copy.deepcopy(ex)
            ex2.pop("decisions", None)
            out2 = world.run_execution(self.case, ex2, self.workdir)
            self.n_recheck += 1
            d2 = world.execution_digest(out2, self.workdir)
            if d2 != d:
                raise HarnessFailure(f"determinism: execution digest {d} then {d2} for the same execution "
                                     f"(profile {ex.get('profile')}, seed {ex.get('sched_seed')})")
            # leave the files of the first run's content in place (identical by the check above)
        return out

    def summary(self):
        return {"n_exec": self.n_exec, "n_recheck": self.n_recheck, "sim_time": self.sim_time,
                "wall_exec": self.wall_exec, "faults": self.faults, "signatures": sorted(self.signatures),
                "nodes_hist": self.nodes_hist, "profile_hist": self.profile_hist, "mode_hist": self.mode_hist,
                "late_diffs": self.late_diffs, "aborted": self.aborted, "stream_profiles": self.stream_profiles,
                "short_reads": self.short_reads, "exec_digests": len(self.exec_digests), "abort_samples": self.abort_samples}


def run_world(prop, case, ctx, sub):
    ctx.begin_world(case, sub)
    rep = prop.run(case, ctx)
    return rep.as_dict()


def cmd_run(a):
    prop = props.PROPS[a.prop]
    wd = world.make_workdir(f"{a.prop}-{a.seed}-s{a.shard}")
    hs = os.environ.get("PYTHONHASHSEED", "random")
    ctx = Ctx(a.prop, wd)
    t0 = time.time()
    done = 0
    status = "ok"
    with open(a.out, "w") as out:
        try:
            todo = []
            for w in range(a.worlds):
                if w % a.nshards == a.shard:
                    todo.append((w, False))
                elif a.prop == "C09" and (w + a.nshards // 2) % a.nshards == a.shard and a.nshards > 1:
                    todo.append((w, True))
            todo.sort()
            for w, secondary in todo:
                if time.time() > a.deadline:
                    status = "deadline"
                    break
                if a.stop_file and os.path.exists(a.stop_file):
                    status = "stopped"
                    break
                sub = subseed(a.seed, a.prop, w)
                rng = random.Random(sub)
                rng.world_index = w
                case = prop.gen(rng, a.tier)
                ctx.secondary = secondary
                tw = time.time()
                rep = run_world(prop, case, ctx, sub)
                line = {"world": w, "secondary": secondary, "hash_seed": hs, "report": rep,
                        "wall": round(time.time() - tw, 3), "digests": list(getattr(ctx, "world_digests", []))}
                if rep["violations"] or (done < 1 and not secondary):
                    line["case"] = case
                out.write(json.dumps(line) + "\n")
                out.flush()
                done += 1
        except HarnessFailure as e:
            status = "harness"
            out.write(json.dumps({"harness_error": str(e)[:4000]}) + "\n")
        except BaseException:  # noqa: BLE001
            status = "harness"
            out.write(json.dumps({"harness_error": traceback.format_exc()[-4000:]}) + "\n")
        out.write(json.dumps({"summary": ctx.summary(), "status": status, "done": done,
                              "wall": round(time.time() - t0, 2), "hash_seed": hs, "shard": a.shard}) + "\n")
    shutil.rmtree(wd, ignore_errors=True)
    return 0 if status != "harness" else 2


# ----------------------------------------------------------------------------------------------------------
def same_violation(v, clause, signature):
    return v["clause"] == clause and (signature is None or v.get("signature") == signature)


def evaluate(prop, case, tag, secondary=False):
    wd = world.make_workdir(tag)
    try:
        ctx = Ctx(prop.id, wd, recheck=False, secondary=secondary)
        case = copy.deepcopy(case)
        rep = run_world(prop, case, ctx, 0)
        return rep, case
    finally:
        shutil.rmtree(wd, ignore_errors=True)


def cmd_replay(a):
    rp = json.load(open(a.file))
    prop = props.PROPS[rp["property"]]
    case = rp.get("minimised") if (a.minimised and rp.get("minimised")) else rp["case"]
    rep, case2 = evaluate(prop, case, f"replay-{os.getpid()}")
    hits = [v for v in rep["violations"] if same_violation(v, rp["clause"], rp.get("signature"))]
    res = {"reproduced": bool(hits), "violations": rep["violations"][:5], "case": case2,
           "files_digest": rep.get("extra", {}).get("exec0_digest")}
    json.dump(res, open(a.out, "w"))
    return 0


def _variants(case, prop_id):
    """Candidate reductions, most aggressive first.  Each is (label, new_case)."""
    c = case
    if "filesets" not in c:
        # C17-style case
        for i in range(len(c.get("maps", []))):
            n = copy.deepcopy(c)
            del n["maps"][i]
            for v in n["variants"]:
                v["layout"] = dict(v["layout"], order=None)
            yield f"drop-map-{i}", n
        if c.get("filter"):
            n = copy.deepcopy(c)
            n["filter"] = None
            yield "no-filter", n
        for vi in range(len(c.get("variants", []))):
            if len(c["variants"]) > 1:
                n = copy.deepcopy(c)
                del n["variants"][vi]
                yield f"drop-variant-{vi}", n
        return
    nex = len(c["executions"])
    if prop_id not in ("C08",):
        for i in reversed(range(nex)):
            if nex > 1 and not (i == 0 and prop_id in ("C09", "C10")):
                n = copy.deepcopy(c)
                del n["executions"][i]
                yield f"drop-exec-{i}", n
    qids = [q["id"] for q in c["filesets"]["base"]["queries"]]

    def without_queries(drop):
        n = copy.deepcopy(c)
        for fs in n["filesets"].values():
            fs["queries"] = [q for q in fs["queries"] if q["id"] not in drop]
            fs["q_layout"] = dict(fs.get("q_layout") or {}, order=None)
        for ex in n["executions"]:
            if ex.get("qids"):
                ex["qids"] = [q for q in ex["qids"] if q not in drop] or ex["qids"]
            if ex.get("common"):
                ex["common"] = [q for q in ex["common"] if q not in drop]
        if "truth" in n:
            n["truth"] = {k: v for k, v in n["truth"].items() if int(k) not in drop}
        if "twins" in n:
            n["twins"] = {k: v for k, v in n["twins"].items() if int(k) not in drop and v not in drop}
        return n

    half = len(qids) // 2
    if half >= 1:
        yield "drop-queries-first-half", without_queries(set(qids[:half]))
        yield "drop-queries-second-half", without_queries(set(qids[half:]))
    for q in qids:
        if len(qids) > 1:
            yield f"drop-query-{q}", without_queries({q})
    rids = [r["id"] for r in c["filesets"]["base"]["refs"]]
    for r in rids:
        if len(rids) > 1:
            n = copy.deepcopy(c)
            for fs in n["filesets"].values():
                fs["refs"] = [x for x in fs["refs"] if x["id"] != r]
                fs["r_layout"] = dict(fs.get("r_layout") or {}, order=None)
            yield f"drop-ref-{r}", n
    for k in list(c.get("config", {})):
        n = copy.deepcopy(c)
        del n["config"][k]
        yield f"default-{k}", n
    for i, ex in enumerate(c["executions"]):
        if ex.get("stream"):
            n = copy.deepcopy(c)
            n["executions"][i]["stream"] = None
            yield f"no-stream-{i}", n
        if ex.get("profile") != "serial" and prop_id not in ("C09",):
            n = copy.deepcopy(c)
            n["executions"][i].update(profile="serial", cpus=1)
            n["executions"][i].pop("decisions", None)
            yield f"serial-{i}", n
    for name, fs in c["filesets"].items():
        for key in ("r_layout", "q_layout"):
            lay = fs.get(key) or {}
            if lay.get("rows", "sorted") != "sorted" or lay.get("extra_cols") or lay.get("comments") or lay.get("col_perm") \
                    or lay.get("marker", "last") != "last":
                n = copy.deepcopy(c)
                n["filesets"][name][key] = {"order": lay.get("order"), "rows": "sorted", "marker": "last", "seed": 0}
                yield f"plain-{name}-{key}", n


def cmd_minimise(a):
    rp = json.load(open(a.file))
    prop = props.PROPS[rp["property"]]
    clause, sig = rp["clause"], rp.get("signature")
    best = rp["case"]
    for ex in best.get("executions", []):
        ex.pop("decisions", None)
    t0 = time.time()
    tried = 0
    steps = []
    progress = True
    while progress and tried < a.budget and time.time() - t0 < a.seconds:
        progress = False
        for label, cand in _variants(best, prop.id):
            if tried >= a.budget or time.time() - t0 > a.seconds:
                break
            tried += 1
            try:
                rep, cand2 = evaluate(prop, cand, f"min-{os.getpid()}")
            except BaseException:  # noqa: BLE001
                continue
            if any(same_violation(v, clause, sig) for v in rep["violations"]):
                best = cand
                for ex in best.get("executions", []):
                    ex.pop("decisions", None)
                steps.append(label)
                progress = True
                break
    rep, final = evaluate(prop, best, f"min-{os.getpid()}")
    hits = [v for v in rep["violations"] if same_violation(v, clause, sig)]
    json.dump({"minimised": final if hits else None, "steps": steps, "tried": tried, "violation": hits[:1]},
              open(a.out, "w"))
    return 0


def main(argv=None):
    ap = argparse.ArgumentParser()
    sub = ap.add_subparsers(dest="cmd", required=True)
    r = sub.add_parser("run")
    r.add_argument("--prop", required=True)
    r.add_argument("--tier", default="quick")
    r.add_argument("--seed", type=int, default=0)
    r.add_argument("--shard", type=int, default=0)
    r.add_argument("--nshards", type=int, default=1)
    r.add_argument("--worlds", type=int, required=True)
    r.add_argument("--deadline", type=float, default=1e18)
    r.add_argument("--out", required=True)
    r.add_argument("--stop-file", default=None)
    p = sub.add_parser("replay")
    p.add_argument("--file", required=True)
    p.add_argument("--out", required=True)
    p.add_argument("--minimised", action="store_true")
    m = sub.add_parser("minimise")
    m.add_argument("--file", required=True)
    m.add_argument("--out", required=True)
    m.add_argument("--budget", type=int, default=60)
    m.add_argument("--seconds", type=float, default=150)
    a = ap.parse_args(argv)
    sim.set_pdeathsig()
    import faulthandler
    faulthandler.enable()
    return {"run": cmd_run, "replay": cmd_replay, "minimise": cmd_minimise}[a.cmd](a)


if __name__ == "__main__":
    sys.exit(main())
