"""Workload: reference / query map families, file layouts, configurations.  Everything is drawn from the
random.Random handed in; maps are plain dicts {"id","length","pos"} with ascending coordinates."""
from __future__ import annotations

LATTICE = 1400


def r1(x):
    return round(float(x), 1)


# ----------------------------------------------------------------------------------------------------------
# references
def ref_random(rng, mid, nlabels=None, decimals=True):
    n = nlabels or rng.randint(30, 250)
    mean = rng.uniform(9000, 12000)
    p = rng.uniform(500, 5000)
    pos = []
    for _ in range(n):
        pos.append(r1(p) if decimals else float(int(p)))
        p += 2000 + rng.expovariate(1.0 / (mean - 2000))
    length = pos[-1] + rng.uniform(100, 20000)
    return {"id": mid, "length": r1(length) if decimals else float(int(length)), "pos": pos, "family": "random"}


def ref_lattice(rng, mid, nlabels=None, step=LATTICE, kmin=2, kmean=7):
    n = nlabels or rng.randint(30, 200)
    p = rng.randint(1, 4) * step
    pos = []
    for _ in range(n):
        pos.append(float(p))
        k = kmin + min(40, int(rng.expovariate(1.0 / max(0.5, kmean - kmin))))
        p += k * step
    length = pos[-1] + rng.randint(1, 10) * step
    return {"id": mid, "length": float(length), "pos": pos, "family": "lattice"}


def ref_repetitive(rng, mid):
    motif_n = rng.randint(6, 12)
    gaps = [r1(2000 + rng.expovariate(1.0 / 7000)) for _ in range(motif_n)]
    pos = []
    p = rng.uniform(500, 5000)
    blocks = rng.randint(4, 10)
    for b in range(blocks):
        if rng.random() < 0.6:           # a copy of the motif
            for g in gaps:
                pos.append(r1(p))
                p += g
        else:                             # unique filler
            for _ in range(rng.randint(3, 10)):
                pos.append(r1(p))
                p += 2000 + rng.expovariate(1.0 / 8000)
    length = pos[-1] + rng.uniform(100, 10000)
    return {"id": mid, "length": r1(length), "pos": pos, "family": "repetitive"}


def ref_tiny(rng, mid):
    n = rng.randint(1, 3)
    p = rng.uniform(100, 3000)
    pos = []
    for _ in range(n):
        pos.append(r1(p))
        p += rng.uniform(2000, 30000)
    return {"id": mid, "length": r1(pos[-1] + rng.uniform(1, 50000)), "pos": pos, "family": "tiny"}


def distinct_ids(rng, n, lo=1, hi=400):
    return sorted(rng.sample(range(lo, hi), n))


# ----------------------------------------------------------------------------------------------------------
# queries.  Each generator returns (map, truth) where truth describes what was planted.
def _window_coords(ref, i, k, reverse):
    w = ref["pos"][i:i + k]
    if reverse:
        return [w[-1] - p for p in reversed(w)]
    return [p - w[0] for p in w]


def q_planted(rng, qid, ref, kmin=15, kmax=45, margin=4, reverse=None, decimals=True, force=None):
    """Exact copy of an interior window (C06 bounds): >= margin labels from either end.  force=(i, k) fixes the window."""
    n = len(ref["pos"])
    kmax = min(kmax, n - 2 * margin)
    if kmax < kmin:
        return None, None
    k = rng.randint(kmin, kmax)
    i = rng.randint(margin, n - margin - k)
    if force is not None:
        i, k = force
    reverse = (rng.random() < 0.5) if reverse is None else reverse
    off = rng.choice([0.0, r1(rng.uniform(0, 50000)), float(rng.randint(0, 50000))])
    tail = rng.choice([0.0, r1(rng.uniform(0, 20000))])
    if not decimals:
        off, tail = float(int(off)), float(int(tail))
    rel = _window_coords(ref, i, k, reverse)
    pos = [r1(p + off) for p in rel]
    truth = {"kind": "planted", "ref": ref["id"], "reverse": reverse, "i": i, "k": k,
             "pairs": [[i + k - j, j + 1] for j in range(k)][::-1] if reverse else [[i + 1 + j, j + 1] for j in range(k)]}
    return {"id": qid, "length": r1(pos[-1] + tail), "pos": pos, "family": "planted"}, truth


def _noisify(rng, rel, loss=0.15, extra=0.10, jitter=300.0, stretch=0.04, lattice=None):
    s = 1.0 + rng.uniform(-stretch, stretch) if stretch else 1.0
    out = []
    for p in rel:
        if len(rel) > 8 and rng.random() < rng.uniform(0, loss):
            continue
        q = p * s + (rng.uniform(-jitter, jitter) if jitter else 0.0)
        out.append(q)
    n_extra = int(len(rel) * rng.uniform(0, extra))
    if out and n_extra:
        lo, hi = min(out), max(out)
        for _ in range(n_extra):
            out.append(rng.uniform(lo, hi))
    out = sorted(out)
    if lattice:
        out = sorted({round(p / lattice) * lattice for p in out})
    # keep labels apart (coincident labels belong to the degenerate family only)
    sep = []
    for p in out:
        if not sep or p - sep[-1] >= (lattice or 600.0):
            sep.append(p)
    return sep


def q_noisy(rng, qid, ref, kmin=12, kmax=50, lattice=None):
    n = len(ref["pos"])
    if n < kmin + 2:
        return None, None
    k = rng.randint(kmin, min(kmax, n - 2))
    i = rng.randint(0, n - k)
    reverse = rng.random() < 0.5
    rel = _window_coords(ref, i, k, reverse)
    if lattice:
        pos = _noisify(rng, rel, jitter=0.0, stretch=0.0, lattice=lattice)
    else:
        pos = _noisify(rng, rel)
    if len(pos) < 3:
        return None, None
    off = r1(rng.uniform(0, 30000)) if not lattice else float(rng.randint(0, 20) * lattice)
    base = pos[0]
    pos = [r1(p - base + off) for p in pos]
    tail = r1(rng.uniform(0, 5000)) if not lattice else float(rng.randint(0, 3) * lattice)
    return ({"id": qid, "length": r1(pos[-1] + tail), "pos": pos, "family": "noisy"},
            {"kind": "noisy", "ref": ref["id"], "reverse": reverse, "i": i, "k": k})


def q_chimeric(rng, qid, refs, parts=None, kmin=9, kmax=25, noisy=True, lattice=None, equal=False):
    """2-3 windows from different places / strands / references laid end to end."""
    parts = parts or rng.choice([2, 2, 3])
    pos = []
    cursor = 0.0
    desc = []
    k_eq = rng.randint(kmin, max(kmin, min(kmax, 14))) if equal else None
    for _ in range(parts):
        ref = rng.choice(refs)
        n = len(ref["pos"])
        k = k_eq or rng.randint(kmin, kmax)
        if n < k + 2:
            continue
        i = rng.randint(0, n - k)
        reverse = rng.random() < 0.5
        rel = _window_coords(ref, i, k, reverse)
        if noisy and not lattice:
            rel = _noisify(rng, rel, loss=0.08, extra=0.05, jitter=200.0, stretch=0.02)
            if not rel:
                continue
            rel = [p - rel[0] for p in rel]
        for p in rel:
            pos.append(cursor + p)
        gap = rng.uniform(5000, 30000) if not lattice else rng.randint(3, 20) * lattice
        cursor = pos[-1] + gap
        desc.append({"ref": ref["id"], "i": i, "k": k, "reverse": reverse})
    if len(pos) < 3:
        return None, None
    pos = [r1(p) for p in pos]
    return ({"id": qid, "length": r1(pos[-1] + (0 if lattice else rng.uniform(0, 3000))), "pos": pos,
             "family": "chimeric"}, {"kind": "chimeric", "parts": desc})


def q_indel(rng, qid, ref, lattice=None):
    """A window with 5-80 kb inserted (query longer) or deleted (reference stretch missing) mid-way."""
    n = len(ref["pos"])
    k = rng.randint(18, min(50, n - 2)) if n >= 22 else None
    if not k:
        return None, None
    i = rng.randint(0, n - k)
    reverse = rng.random() < 0.5
    w = ref["pos"][i:i + k]
    m = rng.randint(7, k - 7)
    size = rng.uniform(5000, 80000)
    if lattice:
        size = round(size / lattice) * lattice
    if rng.random() < 0.5:      # insertion in the query
        fwd = [p - w[0] for p in w[:m]] + [p - w[0] + size for p in w[m:]]
        kind = "insertion"
    else:                       # deletion: drop reference labels m..m+d, close the gap
        d = rng.randint(1, max(1, min(6, k - m - 7)))
        removed = w[m + d] - w[m] if m + d < k else 0
        keep = max(2000.0, removed - size)
        if lattice:
            keep = max(2 * lattice, round(keep / lattice) * lattice)
        fwd = [p - w[0] for p in w[:m]] + [p - w[0] - removed + keep for p in w[m + d:]]
        kind = "deletion"
    if reverse:
        fwd = [fwd[-1] - p for p in reversed(fwd)]
    if not lattice:
        fwd = _noisify(rng, fwd, loss=0.05, extra=0.03, jitter=150.0, stretch=0.01)
        if len(fwd) < 3:
            return None, None
        fwd = [p - fwd[0] for p in fwd]
    off = r1(rng.uniform(0, 10000)) if not lattice else 0.0
    pos = [r1(p + off) for p in fwd]
    return ({"id": qid, "length": r1(pos[-1] + 1), "pos": pos, "family": "indel"},
            {"kind": "indel", "ref": ref["id"], "reverse": reverse, "indel": kind, "size": size})


def q_double_indel(rng, qid, ref):
    """A window with two small insertions (2-6 kb: beyond -d, inside the secondary margin): three chained segments."""
    n = len(ref["pos"])
    if n < 34:
        return None, None
    k = rng.randint(30, min(48, n - 2))
    i = rng.randint(0, n - k)
    reverse = rng.random() < 0.5
    w = ref["pos"][i:i + k]
    m1 = rng.randint(8, k // 2 - 3)
    m2 = rng.randint(k // 2 + 3, k - 8)
    s1, s2 = rng.uniform(2000, 6000), rng.uniform(2000, 6000)
    fwd = [p - w[0] + (s1 if j >= m1 else 0) + (s2 if j >= m2 else 0) for j, p in enumerate(w)]
    if reverse:
        fwd = [fwd[-1] - p for p in reversed(fwd)]
    off = r1(rng.uniform(0, 10000))
    pos = [r1(p + off) for p in fwd]
    return ({"id": qid, "length": r1(pos[-1] + 1), "pos": pos, "family": "double-indel"},
            {"kind": "double-indel", "ref": ref["id"], "reverse": reverse})


def dense_head(rng, ref):
    """First labels 2-3 kb apart and close to coordinate 0 (still within 'spacing >= 2 kb')."""
    gaps = [ref["pos"][j + 1] - ref["pos"][j] for j in range(len(ref["pos"]) - 1)]
    for j in range(min(7, len(gaps))):
        gaps[j] = rng.uniform(2000, 3200)
    p = rng.uniform(100, 1500)
    pos = [r1(p)]
    for g in gaps:
        p += g
        pos.append(r1(p))
    tail = ref["length"] - ref["pos"][-1]
    ref["pos"] = pos
    ref["length"] = r1(pos[-1] + tail)
    return ref


def near_palindrome(rng, ref, i, k, noise=150.0):
    """Make the gaps of window [i, i+k) mirror-symmetric up to +-noise bp."""
    gaps = [ref["pos"][j + 1] - ref["pos"][j] for j in range(len(ref["pos"]) - 1)]
    w = gaps[i:i + k - 1]
    for j in range(len(w) // 2):
        w[len(w) - 1 - j] = max(2000.0, w[j] + rng.uniform(-noise, noise))
    gaps[i:i + k - 1] = w
    p = ref["pos"][0]
    pos = [r1(p)]
    for g in gaps:
        p += g
        pos.append(r1(p))
    tail = ref["length"] - ref["pos"][-1]
    ref["pos"] = pos
    ref["length"] = r1(pos[-1] + tail)
    return ref


def q_symmetric_chimera(rng, qid, refs, lattice=LATTICE):
    """[flank | middle | flank]: three exact lattice windows from far-apart places; the middle has more labels (the
    first pass takes it), the two flanks have the *same* number of labels, so the two second-pass fragments of this
    one query align with exactly equal confidence - the tie that makes completion order observable."""
    k = rng.randint(7, 11)
    sizes = [k, k + rng.randint(4, 9), k]
    pos = []
    cursor = 0.0
    desc = []
    used = []
    for kk in sizes:
        for _try in range(30):
            ref = rng.choice(refs)
            n = len(ref["pos"])
            if n < kk + 2:
                continue
            i = rng.randint(0, n - kk)
            if any(u[0] == ref["id"] and abs(u[1] - i) < 2 * max(sizes) + 4 for u in used):
                continue
            break
        else:
            return None, None
        used.append((ref["id"], i))
        reverse = rng.random() < 0.5
        rel = _window_coords(ref, i, kk, reverse)
        for p in rel:
            pos.append(cursor + p)
        cursor = pos[-1] + rng.randint(4, 12) * lattice
        desc.append({"ref": ref["id"], "i": i, "k": kk, "reverse": reverse})
    return ({"id": qid, "length": float(pos[-1] + 1), "pos": [float(p) for p in pos], "family": "symmetric-chimera"},
            {"kind": "symmetric-chimera", "parts": desc})


def q_random(rng, qid, nlabels=None):
    n = nlabels or rng.randint(8, 40)
    p = rng.uniform(0, 3000)
    pos = []
    for _ in range(n):
        pos.append(r1(p))
        p += 2000 + rng.expovariate(1.0 / 8000)
    return ({"id": qid, "length": r1(pos[-1] + rng.uniform(1, 3000)), "pos": pos, "family": "random"},
            {"kind": "random"})


def q_degenerate(rng, qid, refs):
    kind = rng.choice(["one-label", "two-labels", "coincident", "too-long", "few", "dense", "huge-gap", "zero-start"])
    maxref = max(r["length"] for r in refs)
    if kind == "one-label":
        p = r1(rng.uniform(0, 50000))
        m = {"pos": [p], "length": r1(p + rng.uniform(0, 50000))}
    elif kind == "two-labels":
        p = r1(rng.uniform(0, 5000))
        m = {"pos": [p, r1(p + rng.uniform(0.1, 90000))], "length": None}
    elif kind == "coincident":
        q, _ = q_random(rng, qid, rng.randint(4, 20))
        pos = list(q["pos"])
        for _ in range(rng.randint(1, 3)):
            j = rng.randrange(len(pos))
            pos.insert(j, pos[j])
        m = {"pos": pos, "length": None}
    elif kind == "too-long":
        n = rng.randint(5, 60)
        span = maxref * rng.uniform(1.01, 1.6)
        pos = sorted(r1(rng.uniform(0, span)) for _ in range(n))
        pos[0], pos[-1] = 0.0, r1(span)
        m = {"pos": pos, "length": None}
    elif kind == "few":
        q, _ = q_random(rng, qid, rng.randint(3, 6))
        m = {"pos": q["pos"], "length": None}
    elif kind == "dense":
        p = 0.0
        pos = []
        for _ in range(rng.randint(10, 60)):
            pos.append(r1(p))
            p += rng.uniform(0.1, 400)
        m = {"pos": pos, "length": None}
    elif kind == "huge-gap":
        q, _ = q_random(rng, qid, rng.randint(6, 12))
        pos = list(q["pos"])
        j = rng.randrange(1, len(pos))
        gap = rng.uniform(100000, 400000)
        pos = pos[:j] + [r1(p + gap) for p in pos[j:]]
        m = {"pos": pos, "length": None}
    else:
        q, _ = q_random(rng, qid, rng.randint(8, 20))
        m = {"pos": [r1(p - q["pos"][0]) for p in q["pos"]], "length": None}
    if m["length"] is None:
        m["length"] = r1(m["pos"][-1] + rng.choice([0.0, 1.0, r1(rng.uniform(0, 9000))]))
    m.update({"id": qid, "family": "degenerate"})
    return m, {"kind": "degenerate", "sub": kind}


# ----------------------------------------------------------------------------------------------------------
def layout(rng, nmaps, plain=False):
    if plain:
        return {"order": list(range(nmaps)), "rows": "sorted", "marker": "last", "seed": 0}
    order = list(range(nmaps))
    if rng.random() < 0.5:
        rng.shuffle(order)
    return {"order": order, "rows": rng.choice(["sorted", "sorted", "shuffled", "interleaved"]),
            "marker": rng.choice(["last", "last", "first", "random"]),
            "extra_cols": rng.choice([0, 0, 1, 3]), "comments": rng.choice([0, 0, 2]),
            "col_perm": rng.random() < 0.15, "f_line": rng.random() < 0.8, "seed": rng.randrange(1 << 30)}


MODES = ("best", "separate", "joined", "all")


def swarm_config(rng, lattice=False, aggressive=True):
    """One random subset of options away from their defaults; values keep -md >= -r1 and -su <= 0, -ms > 0."""
    cfg = {}
    pick = lambda p: rng.random() < p  # noqa: E731
    if pick(0.5):
        cfg["-p"] = rng.randint(1, 5)
    if pick(0.35):
        cfg["-sp"] = rng.choice([500, 750, 1000, 1250, 2000])
    if pick(0.35):
        cfg["-dp"] = rng.choice([0.0, 0.25, 0.5, 1.0, 1.5, 2.0])
    if pick(0.35):
        cfg["-su"] = rng.choice([0, -100, -250, -500, -750])
    if pick(0.35):
        cfg["-ms"] = rng.choice([250, 500, 1000, 1500, 3000])
    if pick(0.35):
        cfg["-bs"] = rng.choice([250, 600, 1200, 2500, 100000])
    if pick(0.35) and not lattice:
        cfg["-d"] = rng.choice([40, 80, 300, 600, 1000, 1500, 2500, 4000])
    if pick(0.5):
        cfg["-diff"] = rng.choice([0, 20000, 100000, 10000000])
    if pick(0.25):
        cfg["-sj"] = rng.choice([0.0, 0.5, 1.0, 2.0])
    if pick(0.25):
        cfg["-ss"] = rng.choice([0, 1])
    if aggressive and not lattice:
        if pick(0.15):
            cfg["-r1"] = rng.choice([700, 1000, 1400, 2000])
        if pick(0.15):
            cfg["-b1"] = rng.choice([0, 1, 2])
        if pick(0.15):
            cfg["-r2"] = rng.choice([50, 100, 200])
        if pick(0.15):
            cfg["-b2"] = rng.choice([2, 4, 6])
        if pick(0.15):
            cfg["-ma"] = rng.choice([8000, 16000, 24000])
        if pick(0.15):
            cfg["-pt"] = rng.choice([18, 27, 36])
        if pick(0.15):
            cfg["-md"] = rng.choice([5000, 20000, 50000])
    if "-md" in cfg and cfg["-md"] < cfg.get("-r1", 1400):
        cfg["-md"] = cfg.get("-r1", 1400)
    return cfg


def make_refs(rng, family=None, count=None, ids=None):
    family = family or rng.choice(["random", "random", "lattice", "repetitive"])
    count = count or rng.choice([1, 1, 2, 3])
    ids = ids or distinct_ids(rng, count)
    refs = []
    for mid in ids:
        if family == "random":
            refs.append(ref_random(rng, mid, rng.randint(30, 160)))
        elif family == "lattice":
            refs.append(ref_lattice(rng, mid, rng.randint(30, 140)))
        elif family == "repetitive":
            refs.append(ref_repetitive(rng, mid))
        elif family == "tiny":
            refs.append(ref_tiny(rng, mid))
        else:
            raise ValueError(family)
    return refs


def make_queries(rng, refs, n, mix, ids=None, lattice=None):
    """mix: list of (family, weight)."""
    fams = [f for f, _ in mix]
    weights = [w for _, w in mix]
    ids = ids or distinct_ids(rng, n, 1, 5000)
    queries, truths = [], {}
    for qid in ids:
        for _try in range(6):
            fam = rng.choices(fams, weights)[0]
            ref = rng.choice(refs)
            if fam == "planted":
                q, t = q_planted(rng, qid, ref)
            elif fam == "noisy":
                q, t = q_noisy(rng, qid, ref, lattice=lattice)
            elif fam == "chimeric":
                q, t = q_chimeric(rng, qid, refs, lattice=lattice)
            elif fam == "indel":
                q, t = q_indel(rng, qid, ref, lattice=lattice)
            elif fam == "symmetric-chimera":
                q, t = q_symmetric_chimera(rng, qid, refs)
            elif fam == "double-indel":
                q, t = q_double_indel(rng, qid, ref)
            elif fam == "degenerate":
                q, t = q_degenerate(rng, qid, refs)
            else:
                q, t = q_random(rng, qid)
            if q is not None:
                break
        else:
            q, t = q_random(rng, qid)
        queries.append(q)
        truths[str(qid)] = t
    return queries, truths


def ref_with_copies(rng, mid, copies=(0.0, 0.0), k=None):
    """A reference that holds several copies of one block of k labels, far apart; copies[i] is the per-gap jitter (bp) of
    copy i (0.0 = exact).  Returns (ref, [start index of each copy], k)."""
    k = k or rng.randint(18, 26)
    gaps = [2000 + rng.expovariate(1.0 / 8000) for _ in range(k - 1)]
    pos, starts = [], []
    p = rng.uniform(500, 5000)
    for c, jit in enumerate(copies):
        for _ in range(rng.randint(8, 20) if c == 0 else rng.randint(14, 30)):
            pos.append(p)
            p += 2000 + rng.expovariate(1.0 / 8000)
        starts.append(len(pos))
        pos.append(p)
        for g in gaps:
            p += max(2000.0, g + (rng.uniform(-jit, jit) if jit else 0.0))
            pos.append(p)
        p += 2000 + rng.expovariate(1.0 / 8000)
    for _ in range(rng.randint(8, 20)):
        pos.append(p)
        p += 2000 + rng.expovariate(1.0 / 8000)
    pos = [r1(x) for x in pos]
    return {"id": mid, "length": r1(pos[-1] + rng.uniform(100, 9000)), "pos": pos, "family": "copies"}, starts, k


def add_twin_labels(rng, m, count=1):
    """Two distinct labels at exactly the same coordinate (valid CMAP; real data has them at 0.1 bp resolution)."""
    pos = list(m["pos"])
    for _ in range(count):
        if len(pos) < 4:
            break
        j = rng.randrange(1, len(pos) - 1)
        pos.insert(j, pos[j])
    m["pos"] = pos
    return m


def tight_pair(rng, rid, qid):
    """A reference only about three 1400-bp seeding bins longer than a reverse-strand query that covers all of its labels:
    the seeding correlation has ~3 lags, with the true one in the middle."""
    ref = ref_random(rng, rid, rng.randint(22, 40))
    shift = rng.uniform(1500, 2600) - ref["pos"][0]
    ref["pos"] = [r1(p + shift) for p in ref["pos"]]
    ref["length"] = r1(ref["pos"][-1] + rng.uniform(1500, 2600))
    rel = _window_coords(ref, 0, len(ref["pos"]), True)
    q = {"id": qid, "length": r1(rel[-1] + 1), "pos": [r1(p) for p in rel], "family": "tight"}
    return ref, q


def strip(m):
    return {"id": m["id"], "length": m["length"], "pos": list(m["pos"])}
