"""Per-property history shapes: how a world is generated, which executions are run, which oracle decides.

Every property object has
    gen(rng, tier)      -> case   (explicit data: filesets, config, executions, truth)
    run(case, ctx)      -> report {"violations": [...], "probes": {...}, "clauses": {...}, "nontrivial": [...]}
`ctx.execute(ex)` runs one execution of the case in a fresh world process and keeps the books.
"""
from __future__ import annotations

import collections
import random

from . import fmt, oracles as O, sim, streams, workload as W

ALL_PROFILES = ["serial", "lockstep", "jitter", "jitter", "one-stalled", "reverse-finish", "wide", "late-start"]


class Report:
    def __init__(self):
        self.violations = []
        self.probes = collections.Counter()
        self.clauses = collections.Counter()
        self.nontrivial = []
        self.extra = {}

    def add(self, vs, exec_index=None, ex=None):
        for v in vs:
            v = dict(v)
            if exec_index is not None:
                v["exec"] = exec_index
            self.violations.append(v)

    def as_dict(self):
        return {"violations": self.violations, "probes": dict(self.probes), "clauses": dict(self.clauses),
                "nontrivial": self.nontrivial, "extra": self.extra}


def gen_exec(rng, mode=None, profile=None, readback=False, stream_p=0.1, cpus=None):
    profile = profile or rng.choice(ALL_PROFILES)
    ex = {"mode": mode or rng.choice(W.MODES), "profile": profile, "sched_seed": rng.randrange(1 << 30),
          "pb": rng.random() < 0.9, "cpu_count": rng.randint(1, 64)}
    if profile == "serial":
        ex["cpus"] = 1
    elif cpus is not None:
        ex["cpus"] = cpus
    elif rng.random() < 0.12:
        ex["cpus"] = None                      # -c omitted: the stubbed cpu_count decides
    elif profile == "wide":
        ex["cpus"] = 16
    else:
        ex["cpus"] = rng.randint(2, 16)
    if rng.random() < stream_p:
        ex["stream"] = {"profile": rng.choice(streams.CHUNK_PROFILES[1:]), "seed": rng.randrange(1 << 20),
                        "seekable": rng.random() < 0.5}
    if readback:
        ex["readback"] = {"profile": rng.choice(streams.CHUNK_PROFILES), "seed": rng.randrange(1 << 20),
                          "seekable": rng.random() < 0.5}
    return ex


GENERAL_MIX = [("planted", 2), ("noisy", 4), ("chimeric", 4), ("indel", 3), ("double-indel", 2), ("random", 1),
               ("symmetric-chimera", 0)]


_SAMPLE = {}


def sample_data():
    """The repository's own sample data set (real Bionano molecules against one 59-Mb contig), read with the oracle parser."""
    if "maps" not in _SAMPLE:
        import os
        from . import repo
        d = os.path.join(repo.REPO, "data", "NA12878_BSPQI")
        try:
            refs = fmt.parse_cmap(open(os.path.join(d, "alignmolvref_contig24_r.cmap")).read())
            qs = fmt.parse_cmap(open(os.path.join(d, "alignmolvref_contig24_q.cmap")).read())
            where = {}
            for rec in fmt.parse_xmap(open(os.path.join(d, "alignmolvref_contig24.xmap")).read())["records"]:
                where[int(rec["QryContigID"])] = (float(rec["RefStartPos"]), float(rec["RefEndPos"]))
            _SAMPLE["maps"] = ([{"id": m["id"], "length": m["length"], "pos": m["pos"]} for m in refs.values() if m["pos"]],
                               [{"id": m["id"], "length": m["length"], "pos": m["pos"], "at": where.get(m["id"])}
                                for m in qs.values() if len(m["pos"]) >= 8])
        except OSError:
            _SAMPLE["maps"] = None
    return _SAMPLE["maps"]


def gen_real(rng):
    """A world cut out of the sample data: the real contig (a 1.5-4 Mb stretch of it) and 4-8 real molecules."""
    refs, qs = sample_data()
    ref = refs[0]
    n = len(ref["pos"])
    span = rng.randint(200, 450)
    anchor = rng.choice([q for q in qs if q.get("at")] or [None])
    if anchor is not None:        # put the stretch where the molecules are
        i0 = min(range(n), key=lambda j: abs(ref["pos"][j] - anchor["at"][0]))
        i = max(0, min(n - span, i0 - rng.randint(20, 150)))
    else:
        i = rng.randint(0, n - span)
    pos = [W.r1(p - ref["pos"][i] + 1000.0) for p in ref["pos"][i:i + span]]
    r = {"id": ref["id"], "length": W.r1(pos[-1] + 5000.0), "pos": pos}
    lo, hi = ref["pos"][i], ref["pos"][i + span - 1]
    inside = [q for q in qs if q.get("at") and lo <= q["at"][0] and q["at"][1] <= hi]     # molecules RefAligner placed here
    others = [q for q in qs if q not in inside]
    queries = rng.sample(inside, min(len(inside), rng.randint(3, 7))) + rng.sample(others, rng.randint(0, 2))
    return {"filesets": {"base": {"refs": [r], "queries": sorted([W.strip(q) for q in queries], key=lambda q: q["id"]),
                                  "r_layout": W.layout(rng, 1), "q_layout": W.layout(rng, len(queries))}},
            "config": W.swarm_config(rng, aggressive=False) if rng.random() < 0.5 else {}, "truth": {},
            "meta": {"ref_family": "real", "families": ["real"]}}


def gen_general(rng, nq=(6, 12), mix=None, ref_family=None, lattice_cfg=False, plain_layout=False, aggressive=True,
                nrefs=None):
    if ref_family is None and nrefs is None and rng.random() < 0.07 and sample_data():
        return gen_real(rng)
    fam = ref_family or rng.choice(["random", "random", "random", "lattice", "repetitive", "repetitive"])
    refs = W.make_refs(rng, fam, nrefs or rng.choice([1, 2, 2, 3]))
    for r in refs:
        if len(r["pos"]) > 120:
            r["pos"] = r["pos"][:120]
            r["length"] = W.r1(r["pos"][-1] + 500)
    mix = list(mix or GENERAL_MIX)
    if fam == "lattice":
        mix = [(f, w) for f, w in mix if f != "planted"] + [("symmetric-chimera", 3)]
    n = rng.randint(*nq)
    queries, truths = W.make_queries(rng, refs, n, mix, lattice=W.LATTICE if fam == "lattice" else None)
    if rng.random() < 0.3 and queries:
        # query and reference CMAPs have independent id spaces: let one query share its id with a reference
        rid = rng.choice(refs)["id"]
        if all(q["id"] != rid for q in queries):
            victim = rng.choice(queries)
            truths[str(rid)] = truths.pop(str(victim["id"]), None)
            victim["id"] = rid
            queries.sort(key=lambda q: q["id"])
    if rng.random() < 0.1 and fam != "lattice":
        dref, starts, kb = W.ref_with_copies(rng, max(r["id"] for r in refs) + rng.randint(1, 30), (0.0, 0.0))
        refs.append(dref)
        for _ in range(rng.randint(2, 4)):
            a_ = rng.randint(0, 2)
            qid_ = max(q["id"] for q in queries) + rng.randint(1, 40)
            q_, t_ = W.q_planted(rng, qid_, dref, force=(starts[0] + a_, kb - 2 * a_))
            queries.append(q_)
            truths[str(qid_)] = t_
    if rng.random() < 0.2 and queries:
        # two molecules with identical label patterns under different ids
        src_q = rng.choice(queries)
        new_id = max(q["id"] for q in queries) + rng.randint(1, 50)
        queries.append(dict(src_q, id=new_id, pos=list(src_q["pos"])))
        truths[str(new_id)] = truths.get(str(src_q["id"]))
    if rng.random() < 0.15:
        for m in rng.sample(queries, min(2, len(queries))) + ([rng.choice(refs)] if rng.random() < 0.5 else []):
            W.add_twin_labels(rng, m, rng.randint(1, 2))
    if rng.random() < 0.08 and queries:
        # ids are 64-bit integers: one beyond 2**53 (not representable as a double)
        big = 2 ** 53 + 1 + 2 * rng.randint(0, 1000)
        victim = rng.choice(queries + refs)
        if victim in queries:
            truths[str(big)] = truths.pop(str(victim["id"]), None)
        victim["id"] = big
        queries.sort(key=lambda q: q["id"])
        refs.sort(key=lambda r: r["id"])
    if rng.random() < 0.12 and fam != "lattice":
        tref, tq = W.tight_pair(rng, max(r["id"] for r in refs if r["id"] < 2 ** 53) + rng.randint(1, 20) if any(r["id"] < 2 ** 53 for r in refs) else 7,
                                max([q["id"] for q in queries if q["id"] < 2 ** 53] + [1]) + rng.randint(1, 20))
        if all(q["id"] != tq["id"] for q in queries) and all(r["id"] != tref["id"] for r in refs):
            refs.append(tref)
            queries.append(tq)
            queries.sort(key=lambda q: q["id"])
            refs.sort(key=lambda r: r["id"])
    cfg = W.swarm_config(rng, lattice=(fam == "lattice" and lattice_cfg), aggressive=aggressive)
    if fam == "lattice" and rng.random() < 0.6:
        cfg["-d"] = 600
    return {"filesets": {"base": {"refs": [W.strip(r) for r in refs], "queries": [W.strip(q) for q in queries],
                                  "r_layout": W.layout(rng, len(refs), plain_layout),
                                  "q_layout": W.layout(rng, len(queries), plain_layout)}},
            "config": cfg, "truth": truths, "meta": {"ref_family": fam, "families": sorted({q["family"] for q in queries})}}


def add_prelude(rng, case, ex):
    """An earlier COMA run in the same interpreter, on other maps under the same reference ids and with other scoring
    parameters; its files are named pre*.xmap and are not examined."""
    base = case["filesets"]["base"]
    if "pre" not in case["filesets"]:
        r2 = random.Random(rng.randrange(1 << 30))
        refs = W.make_refs(r2, "random", len(base["refs"]), ids=[r["id"] for r in base["refs"]])
        for r in refs:
            r["pos"] = r["pos"][:60]
            r["length"] = W.r1(r["pos"][-1] + 500)
        qids = [q["id"] for q in base["queries"]][:3]
        qs, _ = W.make_queries(r2, refs, len(qids), [("chimeric", 2), ("noisy", 2), ("planted", 1)], ids=qids)
        case["filesets"]["pre"] = {"refs": [W.strip(r) for r in refs], "queries": [W.strip(q) for q in qs],
                                   "r_layout": None, "q_layout": None}
    abort = rng.random() < 0.35 and ex.get("cpus") is not None
    ex["prelude"] = [{"fileset": "pre", "mode": rng.choice(W.MODES), "out_name": "pre.xmap",
                      # an aborted earlier run with the same -c leaves its pool (and its workers' memory) behind
                      "cpus": ex["cpus"] if abort else rng.choice([1, 2, 3]), "abort_at": rng.randint(0, 2) if abort else None,
                      "config": {"-sp": rng.choice([600, 1500]), "-su": rng.choice([-50, -600]), "-dp": rng.choice([0.1, 3.0]),
                                 "-d": rng.choice([800, 3000])}}]


def big_world(rng):
    """Many short queries (>= 256 records in one output file): thresholds in code paths that only large runs reach."""
    ref = W.ref_random(rng, rng.randint(1, 300), rng.randint(70, 110))
    n = rng.randint(270, 330)
    ids = W.distinct_ids(rng, n, 1, 9000)
    queries = []
    for qid in ids:
        q, _ = W.q_planted(rng, qid, ref, kmin=9, kmax=14, margin=1)
        queries.append(W.strip(q))
    return {"filesets": {"base": {"refs": [W.strip(ref)], "queries": queries, "r_layout": W.layout(rng, 1, True),
                                  "q_layout": W.layout(rng, n, True)}},
            "config": {}, "truth": {}, "meta": {"ref_family": "random", "families": ["big"]}}


# ----------------------------------------------------------------------------------------------------------
def parse_outputs(outcome):
    return {n: fmt.parse_xmap(t) for n, t in outcome["late_files"].items()}


def rows_by_file(outcome):
    return {w["file"]: w["rows"] for w in outcome.get("writes", [])}


def probes_single(rep, outcome, parsed):
    for n, p in parsed.items():
        rep.probes["records"] += len(p["records"])
        for rec in p["records"]:
            if rec.get("AlignedRest") == "True":
                rep.probes["second_round_records"] += 1
            if rec.get("Orientation") == "-":
                rep.probes["reverse_records"] += 1
            if len(rec["pairs"]) == 1:
                rep.probes["one_pair_records"] += 1
    for f, rows in rows_by_file(outcome).items():
        for row in rows:
            ns = sum(1 for s in row["segs"] if s["pos"])
            if ns >= 2:
                rep.probes["rows_ge2_segments"] += 1
            if ns >= 3:
                rep.probes["rows_ge3_segments"] += 1
            peaks = {s["peak"] for s in row["segs"] if s["pos"]}
            if len(peaks) >= 2:
                rep.probes["rows_multi_peak"] += 1
            if any(not s["pos"] for s in row["segs"]) and ns >= 1:
                rep.probes["rows_with_emptied_segment"] += 1
    mode = outcome["argv"][7] if outcome.get("argv") else None
    if mode in ("joined", "all") and "out.xmap" in parsed:
        rep.probes["joined_records"] += len(parsed["out.xmap"]["records"])
        rep.probes["joined_reverse_records"] += sum(1 for r in parsed["out.xmap"]["records"] if r.get("Orientation") == "-")
    cands = sum(len(t["cands"]) for t in outcome.get("tapped", []))
    rep.probes["candidates"] += cands


class Base:
    id = "C00"
    klass = "B"
    quick_worlds = 100
    thorough_worlds = 3000
    execs_per_world = 2
    single = ()

    def gen(self, rng, tier):
        case = gen_general(rng)
        case["executions"] = [gen_exec(rng, readback=("C18" in self.single)) for _ in range(self.execs_per_world)]
        return case

    def run(self, case, ctx):
        rep = Report()
        for k, ex in enumerate(case["executions"]):
            out = ctx.execute(ex)
            if out["status"] != "ok":
                rep.probes["aborted_executions"] += 1
                continue
            self.eval_single(case, ex, out, rep, k)
        return rep

    def eval_single(self, case, ex, out, rep, k):
        raise NotImplementedError


def maps_for(case, ex, ctx):
    rt, qt = ctx.texts[ex.get("fileset", "base")]
    return O.Maps(rt, qt, ex.get("qids"), ex.get("rids"))


# ----------------------------------------------------------------------------------------------------------
class C01(Base):
    id = "C01"
    quick_worlds = 420
    thorough_worlds = 12000

    def gen(self, rng, tier):
        mix = [("planted", 1), ("noisy", 5), ("chimeric", 4), ("indel", 4), ("double-indel", 3), ("random", 1)]
        case = gen_general(rng, mix=mix)
        if rng.random() < 0.6:
            case["config"]["-p"] = rng.randint(3, 5)
        case["executions"] = [gen_exec(rng) for _ in range(2)]
        for ex in case["executions"]:
            if rng.random() < 0.2:
                add_prelude(rng, case, ex)
        return case

    def run(self, case, ctx):
        rep = Report()
        for k, ex in enumerate(case["executions"]):
            out = ctx.execute(ex)
            if out["status"] != "ok":
                rep.probes["aborted_executions"] += 1
                continue
            maps = maps_for(case, ex, ctx)
            parsed = parse_outputs(out)
            probes_single(rep, out, parsed)
            rows = rows_by_file(out)
            for n, p in parsed.items():
                frows = rows.get(n) or []
                for ri, rec in enumerate(p["records"]):
                    rep.clauses["record"] += 1
                    vs = O.c01_record(rec, maps, n)
                    if vs:
                        row = frows[ri] if ri < len(frows) and O.row_pairs(frows[ri]) == rec["pairs"] else None
                        if n == "out.xmap" and ex["mode"] in ("joined", "all"):
                            kind = "joined"
                        elif ex["mode"] == "best" and not any(
                                O.row_pairs(c["row"]) == rec["pairs"] and str(c["qry"]) == rec["QryContigID"]
                                for t in out.get("tapped", []) for c in t["cands"]):
                            kind = "joined"      # not any candidate's row: produced by AlignmentResultRow.resolve
                        else:
                            kind = "single"
                        for v in vs:
                            d = O.c01_diagnose(row, v["clause"], rec.get("Orientation")) if row is not None else "no-row"
                            v["signature"] = f"{kind}|{d}"
                    rep.add(vs, k)
            for t in out.get("tapped", []):
                for c in t["cands"]:
                    rep.clauses["candidate"] += 1
                    rep.add(O.c01_candidate(c, maps), k)
            if any(p["records"] for p in parsed.values()):
                rep.nontrivial.append(ctx.last_files_digest)
        return rep


class C02(Base):
    id = "C02"
    quick_worlds = 420
    thorough_worlds = 12000

    def gen(self, rng, tier):
        case = gen_general(rng)
        # queries whose first label is not at 0 and whose declared length exceeds the last label: trimmed != untrimmed
        for q in case["filesets"]["base"]["queries"]:
            if rng.random() < 0.5:
                off = W.r1(rng.uniform(1, 40000))
                q["pos"] = [W.r1(p + off) for p in q["pos"]]
                q["length"] = W.r1(q["length"] + off + rng.uniform(0, 9000))
        case["executions"] = [gen_exec(rng) for _ in range(2)]
        for ex in case["executions"]:
            if rng.random() < 0.2:
                add_prelude(rng, case, ex)
            if rng.random() < 0.3:
                ex["stale"] = True
        return case

    def run(self, case, ctx):
        rep = Report()
        for k, ex in enumerate(case["executions"]):
            out = ctx.execute(ex)
            if out["status"] != "ok":
                rep.probes["aborted_executions"] += 1
                continue
            maps = maps_for(case, ex, ctx)
            parsed = parse_outputs(out)
            probes_single(rep, out, parsed)
            rows = rows_by_file(out)
            for n, p in parsed.items():
                rep.clauses["record"] += len(p["records"])
                rep.add(O.c02_file(p, maps, n), k)
                for rec in p["records"]:
                    ref = maps.refs.get(O._int(rec.get("RefContigID")))
                    qry = maps.queries.get(O._int(rec.get("QryContigID")))
                    if ref is None or qry is None or O.matching_problems(rec["pairs"], rec.get("Orientation"),
                                                                         len(ref["pos"]), len(qry["pos"])):
                        rep.probes["skipped_c01_invalid"] += 1
                    elif rec.get("AlignedRest") == "True" and min(p_[1] for p_ in rec["pairs"]) > 3:
                        rep.probes["second_round_nonzero_shift"] += 1
            if any(p["records"] for p in parsed.values()):
                rep.nontrivial.append(ctx.last_files_digest)
        return rep


class C03(Base):
    id = "C03"
    quick_worlds = 420
    thorough_worlds = 12000

    def gen(self, rng, tier):
        mix = [("planted", 1), ("noisy", 5), ("chimeric", 3), ("indel", 4), ("double-indel", 4), ("random", 1)]
        case = gen_general(rng, mix=mix)
        if rng.random() < 0.3:
            case["config"]["-ms"] = rng.choice([250, 500, 900])
        case["executions"] = [gen_exec(rng) for _ in range(2)]
        w = getattr(rng, "world_index", None)
        if (w % 53 == 11) if w is not None else rng.random() < 0.02:
            # one long molecule: HitEnum runs of 100 and more
            ref = W.ref_random(rng, rng.randint(1, 300), rng.randint(150, 190))
            q, _ = W.q_planted(rng, rng.randint(1, 5000), ref, kmin=105, kmax=140, margin=2)
            case = {"filesets": {"base": {"refs": [W.strip(ref)], "queries": [W.strip(q)], "r_layout": None, "q_layout": None}},
                    "config": {}, "truth": {}, "meta": {"ref_family": "random", "families": ["long"]}}
            case["executions"] = [gen_exec(rng, stream_p=0.0)]
        if (w % 97 == 5) if w is not None else rng.random() < 0.008:        # placed, so that every tier meets one early
            case = big_world(rng)
            case["executions"] = [gen_exec(rng, profile=rng.choice(["jitter", "reverse-finish", "one-stalled"]), stream_p=0.0)]
            case["executions"][0]["mode"] = rng.choice(["best", "separate"])
        return case

    def run(self, case, ctx):
        rep = Report()
        for k, ex in enumerate(case["executions"]):
            out = ctx.execute(ex)
            if out["status"] != "ok":
                rep.probes["aborted_executions"] += 1
                continue
            maps = maps_for(case, ex, ctx)
            parsed = parse_outputs(out)
            probes_single(rep, out, parsed)
            for n, p in parsed.items():
                vs, skipped = O.c03_file(p, maps, n)
                rep.clauses["record"] += len(p["records"]) - skipped
                rep.probes["skipped_c01_invalid"] += skipped
                rep.add(vs, k)
                for rec in p["records"]:
                    he = rec.get("HitEnum", "")
                    rep.probes["records_with_D"] += "D" in he
                    rep.probes["records_with_I"] += "I" in he
                    rep.probes["reverse_with_I"] += ("I" in he and rec.get("Orientation") == "-")
            if any(p["records"] for p in parsed.values()):
                rep.nontrivial.append(ctx.last_files_digest)
        return rep


class C04(Base):
    id = "C04"
    quick_worlds = 420
    thorough_worlds = 12000

    def gen(self, rng, tier):
        case = gen_general(rng, aggressive=False)
        cfg = case["config"]
        for k, vals in (("-sp", [500, 750, 1000, 1250, 2000]), ("-dp", [0.0, 0.25, 0.5, 1.0, 1.5, 2.0, 0.37]),
                        ("-su", [0, -100, -250, -500, -750]), ("-d", [40, 80, 300, 600, 1000, 1500, 2500, 4000]),
                        ("-ms", [250, 500, 1000, 1500, 3000]), ("-bs", [250, 600, 1200, 2500, 100000])):
            if rng.random() < 0.5:
                cfg[k] = rng.choice(vals)
        case["executions"] = [gen_exec(rng) for _ in range(2)]
        for ex in case["executions"]:
            if rng.random() < 0.2:
                add_prelude(rng, case, ex)
        return case

    def run(self, case, ctx):
        rep = Report()
        cfg = case["config"]
        for k, ex in enumerate(case["executions"]):
            out = ctx.execute(ex)
            if out["status"] != "ok":
                rep.probes["aborted_executions"] += 1
                continue
            maps = maps_for(case, ex, ctx)
            parsed = parse_outputs(out)
            probes_single(rep, out, parsed)
            rows = rows_by_file(out)
            for n, p in parsed.items():
                frows = rows.get(n)
                if frows is None or len(frows) != len(p["records"]):
                    rep.add([O.V("tap-mismatch", f"{n}: {len(p['records'])} records in file but writer was handed "
                                                  f"{None if frows is None else len(frows)} rows", "tap")], k)
                    continue
                for rec, row in zip(p["records"], frows):
                    ref = maps.refs.get(O._int(rec.get("RefContigID")))
                    qry = maps.queries.get(O._int(rec.get("QryContigID")))
                    if ref is None or qry is None or O.matching_problems(rec["pairs"], rec.get("Orientation"),
                                                                         len(ref["pos"]), len(qry["pos"])):
                        rep.probes["skipped_c01_invalid"] += 1
                        continue
                    if O.row_pairs(row) != rec["pairs"]:
                        rep.add([O.V("tap-mismatch", f"{n}: row pairs differ from record pairs", "tap",
                                     record=rec["line"])], k)
                        continue
                    rep.clauses["record"] += 1
                    vs = O.c04_row(row, rec["Confidence"], maps, cfg, "record")
                    for v in vs:
                        v["file"] = n
                        v["record"] = rec["line"]
                    rep.add(vs, k)
                    if sum(1 for s in row["segs"] if s["pos"]) >= 2:
                        rep.probes["checked_rows_ge2_segments"] += 1
            for t in out.get("tapped", []):
                for c in t["cands"]:
                    if not O.row_pairs(c["row"]):
                        continue
                    if O.c01_candidate(c, maps):
                        rep.probes["skipped_c01_invalid_candidates"] += 1
                        continue
                    rep.clauses["candidate"] += 1
                    rep.add(O.c04_row(c["row"], None, maps, cfg, "candidate"), k)
            if any(p["records"] for p in parsed.values()):
                rep.nontrivial.append(ctx.last_files_digest)
        return rep


# ----------------------------------------------------------------------------------------------------------
class C05(Base):
    id = "C05"
    klass = "A"
    quick_worlds = 210
    thorough_worlds = 6000

    def gen(self, rng, tier):
        case = gen_general(rng, aggressive=False)
        case["config"]["-p"] = rng.randint(1, 5)
        profs = ["reverse-finish", "one-stalled", "jitter", rng.choice(ALL_PROFILES)]
        rng.shuffle(profs)
        case["executions"] = [gen_exec(rng, mode=m, profile=p, stream_p=0.0) for m, p in zip(W.MODES, profs)]
        if rng.random() < 0.3:
            for ex in case["executions"]:
                ex["stale"] = True
        return case

    def run(self, case, ctx):
        rep = Report()
        pcount = case["config"].get("-p", 3)
        for k, ex in enumerate(case["executions"]):
            out = ctx.execute(ex)
            if out["status"] != "ok":
                rep.probes["aborted_executions"] += 1
                continue
            parsed = parse_outputs(out)
            mode = ex["mode"]
            one_per_query = {"best": ["out.xmap"], "separate": ["out.xmap", "out_1.xmap"], "joined": ["out.xmap"],
                             "all": ["out.xmap", "out_1.xmap", "out_2.xmap"]}[mode]
            for n in one_per_query:
                if n not in parsed:
                    continue
                ids = [r["QryContigID"] for r in parsed[n]["records"]]
                rep.clauses["unique"] += 1
                dup = sorted({i for i in ids if ids.count(i) > 1})
                if dup:
                    rep.add([O.V("unique", f"{mode}:{n} has {ids.count(dup[0])} records for query {dup[0]}",
                                 f"{mode}:{n}", file=n)], k)
            # round-1 candidates per query (tapped inside the workers)
            round1 = collections.defaultdict(list)
            for t in out.get("tapped", []):
                if t["task"][0] == 1:
                    for c in t["cands"]:
                        round1[c["qry"]].append(c)
            for q, cs in round1.items():
                rep.clauses["at-most-p"] += 1
                if len(cs) > pcount:
                    rep.add([O.V("at-most-p", f"query {q}: {len(cs)} first-pass candidates, -p is {pcount}", "")], k)
            with_pairs = {q: [c for c in cs if O.row_pairs(c["row"])] for q, cs in round1.items()}
            with_pairs = {q: cs for q, cs in with_pairs.items() if cs}
            first_file = {"separate": "out.xmap", "all": "out_1.xmap"}.get(mode)
            if first_file and first_file in parsed:
                recs = {int(r["QryContigID"]): r for r in parsed[first_file]["records"]}
                for q, cs in with_pairs.items():
                    best = max(c["row"]["conf"] for c in cs)
                    allbest = max(c["row"]["conf"] for c in round1[q])
                    rep.clauses["best"] += 1
                    if best < allbest:
                        rep.probes["best_candidate_has_no_pairs"] += 1
                        continue
                    rec = recs.get(q)
                    if rec is None:
                        rep.add([O.V("best", f"{mode}: query {q} has a candidate with pairs (confidence {best}) but no "
                                             f"first-pass record in {first_file}", f"{mode}|missing")], k)
                        continue
                    if abs(float(rec["Confidence"]) - best) > 0.005 + 1e-9 * abs(best):
                        rep.add([O.V("best", f"{mode}: query {q} first-pass Confidence {rec['Confidence']} but the best "
                                             f"candidate scores {best:.2f}", f"{mode}|not-max", record=rec["line"])], k)
                        continue
                    tied = [c for c in cs if abs(c["row"]["conf"] - best) <= 1e-9 * max(1, abs(best))]
                    if len(tied) > 1:
                        rep.probes["tied_best_candidates"] += 1
                    if not any(O.row_pairs(c["row"]) == rec["pairs"] and c["ref"] == int(rec["RefContigID"])
                               for c in tied):
                        rep.add([O.V("best", f"{mode}: query {q} first-pass record is not any best candidate's pairs",
                                     f"{mode}|pairs", record=rec["line"])], k)
                for q in recs:
                    if q not in with_pairs:
                        rep.add([O.V("best", f"{mode}: query {q} has a first-pass record but no candidate with pairs",
                                     f"{mode}|phantom", record=recs[q]["line"])], k)
            if mode == "best" and "out.xmap" in parsed:
                ids = [int(r["QryContigID"]) for r in parsed["out.xmap"]["records"]]
                rep.clauses["best-mode-total"] += 1
                expect = sorted(q for q, cs in with_pairs.items()
                                if max(c["row"]["conf"] for c in cs) >= max(c["row"]["conf"] for c in round1[q]))
                if sorted(set(ids)) != expect:
                    rep.add([O.V("best-mode-total", f"best mode reports queries {sorted(set(ids))}, queries with an "
                                                    f"alignment are {expect}", "best-mode-total")], k)
                rep.clauses["ascending"] += 1
                if any(not b > a for a, b in zip(ids, ids[1:])):
                    rep.add([O.V("ascending", f"best mode QryContigID order {ids}", "ascending")], k)
            # identical molecules under two ids: if one has a record in a one-per-query file, so has the other, and the two
            # records agree in everything but the id (the statement: every query that has any alignment gets a record)
            qmaps = {q["id"]: q for q in case["filesets"][ex.get("fileset", "base")]["queries"]}
            pats = collections.defaultdict(list)
            for q in qmaps.values():
                pats[(tuple(round(p_ - q["pos"][0], 1) for p_ in q["pos"]))].append(q["id"])
            for ids_ in pats.values():
                if len(ids_) < 2:
                    continue
                for n in one_per_query:
                    recs_n = {int(r["QryContigID"]): r for r in parsed.get(n, {"records": []})["records"]}
                    a_id, b_id = sorted(ids_)[:2]
                    ra, rb = recs_n.get(a_id), recs_n.get(b_id)
                    rep.clauses["clone"] += 1
                    if (ra is None) != (rb is None):
                        have = ra or rb
                        rep.add([O.V("clone", f"{mode}:{n}: molecules {a_id} and {b_id} have identical labels, but only "
                                              f"{have['QryContigID']} has a record", f"clone|missing|{mode}", record=have["line"])], k)
                    elif ra is not None:
                        ka = [x for x in fmt.record_key(ra) if x[0] != "QryContigID"]
                        kb = [x for x in fmt.record_key(rb) if x[0] != "QryContigID"]
                        if ka != kb:
                            rep.add([O.V("clone", f"{mode}:{n}: molecules {a_id} and {b_id} have identical labels but different "
                                                  f"records", f"clone|differ|{mode}", record=ra["line"], other=rb["line"])], k)
                        rep.probes["clone_pairs_with_records"] += 1
            for n, p in parsed.items():
                ids = [int(r["QryContigID"]) for r in p["records"]]
                if any(not b > a for a, b in zip(ids, ids[1:])):
                    rep.probes[f"not_ascending_{mode}_{n}"] += 1
            rep.probes["queries_with_candidates"] += len(with_pairs)
            rep.probes["records"] += sum(len(p["records"]) for p in parsed.values())
            if any(p["records"] for p in parsed.values()):
                rep.nontrivial.append(ctx.last_files_digest)
        return rep


# ----------------------------------------------------------------------------------------------------------
class C06(Base):
    id = "C06"
    quick_worlds = 170
    thorough_worlds = 4000

    def gen(self, rng, tier):
        dec = rng.random() < 0.7
        ref = W.ref_random(rng, rng.randint(1, 300), rng.randint(60, 150), decimals=dec)
        forced = []
        if dec and rng.random() < 0.25:
            W.dense_head(rng, ref)                       # a window that starts 4 labels in, < 16 kb from coordinate 0
            forced.append(((4, rng.randint(15, 30)), None))
        if dec and rng.random() < 0.15:
            k_ = rng.randint(15, 28)
            i_ = rng.randint(12, len(ref["pos"]) - k_ - 5)
            W.near_palindrome(rng, ref, i_, k_, rng.choice([120.0, 700.0]))   # a window that nearly equals its mirror image
            forced += [((i_, k_), True), ((i_, k_), False)]
        if dec and rng.random() < 0.15:
            # four look-alike placements of one block, graded: exact, then noisier and noisier copies further along
            ref, starts_, kb_ = W.ref_with_copies(rng, ref["id"], (0.0, 450.0, 700.0, 1000.0))
            forced = [((starts_[0] + 1, kb_ - 2), None), ((starts_[0], kb_), True)]
        n = rng.randint(4, 12)
        ids = W.distinct_ids(rng, n, 1, 5000)
        queries, truths = [], {}
        for qid in ids:
            force, frev = forced.pop() if forced else (None, None)
            q, t = W.q_planted(rng, qid, ref, decimals=dec, force=force, reverse=frev)
            queries.append(W.strip(q))
            truths[str(qid)] = t
        case = {"filesets": {"base": {"refs": [W.strip(ref)], "queries": queries,
                                      "r_layout": W.layout(rng, 1), "q_layout": W.layout(rng, n)}},
                "config": {}, "truth": truths, "meta": {"ref_family": "random", "families": ["planted"]}}
        case["executions"] = [gen_exec(rng, mode=m, stream_p=0.05, cpus=rng.choice([None, 1, 1, 2, 2, 3, 4, 8, 16]))
                              for m in W.MODES]
        if rng.random() < 0.25:
            add_prelude(rng, case, rng.choice(case["executions"]))
        return case

    def run(self, case, ctx):
        rep = Report()
        for k, ex in enumerate(case["executions"]):
            out = ctx.execute(ex)
            if out["status"] != "ok":
                rep.probes["aborted_executions"] += 1
                continue
            maps = maps_for(case, ex, ctx)
            parsed = parse_outputs(out)
            rows = rows_by_file(out)
            mode = ex["mode"]
            where = {"best": ["out.xmap"], "separate": ["out.xmap"], "joined": ["out.xmap", "out_1.xmap"],
                     "all": ["out_1.xmap"]}[mode]
            for qs, t in case["truth"].items():
                qid = int(qs)
                rep.clauses["planted"] += 1
                found = []
                for n in where:
                    for i, rec in enumerate(parsed.get(n, {"records": []})["records"]):
                        if O._int(rec.get("QryContigID")) == qid:
                            found.append((n, i, rec))
                sig = f"{mode}|rev={t['reverse']}"
                rp_ = maps.refs[t["ref"]]["pos"]
                gaps_ = [rp_[j + 1] - rp_[j] for j in range(t["i"], t["i"] + t["k"] - 1)]
                asym = max([abs(gaps_[j] - gaps_[-1 - j]) for j in range(len(gaps_) // 2)] or [1e9])
                if asym < 400:
                    rep.probes["near_palindromic_windows"] += 1
                if not found:
                    rep.add([O.V("missing", f"{mode}: planted query {qid} (k={t['k']}, reverse={t['reverse']}) has no "
                                            f"record in {where}", sig)], k)
                    continue
                n, i, rec = found[0]
                truth = [tuple(p) for p in t["pairs"]]
                wrong_place = int(rec["RefContigID"]) != t["ref"] or (rec["Orientation"] == "-") != t["reverse"] or rec["pairs"] != truth
                if wrong_place:
                    # Ambiguous input?  COMA did build the true placement as a candidate (exactly the true pairs on the true
                    # reference and strand), but another candidate that also pairs all k labels without a gap scored at least as
                    # high: the reference holds a second near-copy of this window (its mirror image inside a palindromic stretch).
                    refm, qrym = maps.refs.get(O._int(rec["RefContigID"])), maps.queries[qid]
                    cands_ = [c for t_ in out.get("tapped", []) if t_["task"][0] == 1 for c in t_["cands"] if c["qry"] == qid]
                    true_c = [c for c in cands_ if c["ref"] == t["ref"] and c["row"]["rev"] == t["reverse"]
                              and O.row_pairs(c["row"]) == truth]
                    if true_c and refm is not None and len(rec["pairs"]) == t["k"] and rec["HitEnum"] == f"{t['k']}M" \
                            and not O.matching_problems(rec["pairs"], rec["Orientation"], len(refm["pos"]), len(qrym["pos"])) \
                            and max(c["row"]["conf"] for c in true_c) <= float(rec["Confidence"]) + 0.005:
                        sig = f"alternative-copy|{mode}"
                        rep.probes["alternative_copy_placements"] += 1
                    elif not true_c:
                        # The true placement was never built.  Was its seed peak among the -p best at all?  (independent
                        # re-computation of the seeding step, default parameters)
                        try:
                            rank = O.seed_rank(maps.refs[t["ref"]]["pos"], qrym["pos"], maps.refs[t["ref"]]["pos"][t["i"]])
                        except Exception:  # noqa: BLE001
                            rank = "unknown"
                        if rank in ("below-cut", "tie-at-cut"):
                            sig = f"seed-below-cut|{mode}"
                            rep.probes["true_seed_below_the_cut"] += 1
                if int(rec["RefContigID"]) != t["ref"] or (rec["Orientation"] == "-") != t["reverse"]:
                    rep.add([O.V("placement", f"{mode}: planted query {qid} reported on ref {rec['RefContigID']} strand "
                                              f"{rec['Orientation']}", sig, record=rec["line"], file=n)], k)
                    continue
                if rec["pairs"] != truth:
                    rep.add([O.V("pairs", f"{mode}: planted query {qid}: reported {len(rec['pairs'])} pairs "
                                          f"{rec['pairs'][:3]}..{rec['pairs'][-2:]}, true {len(truth)} pairs "
                                          f"{truth[:3]}..{truth[-2:]}", sig, record=rec["line"], file=n)], k)
                    continue
                if rec["HitEnum"] != f"{len(truth)}M":
                    rep.add([O.V("hitenum", f"{mode}: planted query {qid}: HitEnum {rec['HitEnum']!r}", sig,
                                 record=rec["line"], file=n)], k)
                row = (rows.get(n) or [None] * (i + 1))[i] if rows.get(n) and i < len(rows[n]) else None
                if row is not None:
                    ref, qry = maps.refs[t["ref"]], maps.queries[qid]
                    worst = 0.0
                    for s in row["segs"]:
                        for p in s["pos"]:
                            if p[0] == "P":
                                rpos = ref["pos"][p[1] - 1]
                                qo = (qry["pos"][-1] - qry["pos"][p[2] - 1]) if row["rev"] else (qry["pos"][p[2] - 1] - qry["pos"][0])
                                worst = max(worst, abs(qo - (rpos - s["peak"])))
                    if worst > 200 + 1e-6:
                        rep.add([O.V("diagonal", f"{mode}: planted query {qid}: a pair is {worst:.1f} bp from the seed "
                                                 f"diagonal", sig, record=rec["line"], file=n)], k)
                    rep.probes["max_offset_bp_x10"] = max(rep.probes["max_offset_bp_x10"], int(worst * 10))
                rep.probes["planted_exact"] += 1
                rep.probes["planted_reverse"] += bool(t["reverse"])
            rep.nontrivial.append(ctx.last_files_digest)
        return rep


# ----------------------------------------------------------------------------------------------------------
class C07(Base):
    id = "C07"
    klass = "A"
    quick_worlds = 420
    thorough_worlds = 10000

    def gen(self, rng, tier):
        fam = rng.choice(["random", "random", "tiny", "lattice", "repetitive"])
        refs = W.make_refs(rng, fam, rng.choice([1, 2, 3]))
        for r in refs:
            if len(r["pos"]) > 100:
                r["pos"] = r["pos"][:100]
                r["length"] = W.r1(r["pos"][-1] + 500)
        if fam != "tiny" and rng.random() < 0.3:
            refs.append(W.ref_tiny(rng, max(r["id"] for r in refs) + rng.randint(1, 9)))
        mix = [("degenerate", 5), ("noisy", 3), ("chimeric", 2), ("random", 2), ("planted", 1)]
        if rng.random() < 0.15:
            mix = [("degenerate", 1), ("random", 1)]     # empty result sets
        queries, truths = W.make_queries(rng, refs, rng.randint(3, 10), mix)
        cfg = W.swarm_config(rng)
        case = {"filesets": {"base": {"refs": [W.strip(r) for r in refs], "queries": [W.strip(q) for q in queries],
                                      "r_layout": W.layout(rng, len(refs)), "q_layout": W.layout(rng, len(queries))}},
                "config": cfg, "truth": truths, "meta": {"ref_family": fam}}
        if rng.random() < 0.4:
            # ordinary (noisy / chimeric / indel) worlds too: "never aborts" is about every well-formed input, and the
            # parent-side join only runs on alignable queries
            case = gen_general(rng, mix=[("chimeric", 4), ("indel", 4), ("noisy", 3), ("degenerate", 2), ("random", 1)])
            refs = case["filesets"]["base"]["refs"]
        ex = gen_exec(rng, readback=True)
        # the -o path is user input too: no extension, a dot only in a directory name, a sub-directory, a ./ prefix
        ex["out_name"] = rng.choice(["out.xmap"] * 5 + ["out", "res.v2/out", "sub/out.xmap", "./out.xmap", "out.v1.xmap", "run#hg38/out.xmap"])
        if rng.random() < 0.3:
            ex["stale"] = True
        if rng.random() < 0.1:
            ex["stdout"] = True
        if rng.random() < 0.2:
            # fault: descriptor exhaustion - every worker may open only a few descriptors beyond those it starts with, and
            # one worker runs (nearly) all tasks; a run that leaks a descriptor per task dies, a correct one does not notice
            ex["fd_margin"] = rng.choice([12, 16, 24])
            ex["profile"] = rng.choice(["serial", "late-start"])
            if ex["profile"] == "serial":
                ex["cpus"] = 1
            extra, _ = W.make_queries(rng, refs, rng.randint(14, 22), [("noisy", 3), ("random", 2), ("degenerate", 1)],
                                      ids=[i for i in W.distinct_ids(rng, 30, 5001, 9000)][:22])
            have = {q["id"] for q in case["filesets"]["base"]["queries"]}
            for q in extra:
                if q["id"] not in have and len(q["pos"]) <= 25:
                    case["filesets"]["base"]["queries"].append(W.strip(q))
            case["filesets"]["base"]["queries"].sort(key=lambda q: q["id"])
            case["filesets"]["base"]["q_layout"] = W.layout(rng, len(case["filesets"]["base"]["queries"]))
        case["executions"] = [ex]
        return case

    def run(self, case, ctx):
        rep = Report()
        ex = case["executions"][0]
        out = ctx.execute(ex)
        mode = ex["mode"]
        base_parsed = None
        if out["status"] != "ok":
            e = out["exc"] or {}
            last = [ln for ln in e.get("tb", "").split("\n") if ln.strip().startswith("File ")]
            frame = ""
            if e.get("frame"):
                frame = e["frame"]
                last = []
            for ln in reversed(last):
                if "/src/" in ln:
                    frame = ln.strip().split("/src/")[-1].split(",")[0].strip('"') + ":" + ln.strip().split(" in ")[-1]
                    break
            rep.add([O.V("no-exception", f"run aborted with {e.get('type')}: {e.get('msg')} (raised in {e.get('where')}, "
                                         f"{frame}); files left behind: "
                                         f"{ {n: len(t) for n, t in out['late_files'].items()} }",
                         f"{e.get('type')}|{e.get('where')}|{frame}")], 0)
            rep.probes["aborted_executions"] += 1
        else:
            rep.clauses["no-exception"] += 1
            got = sorted(out["late_files"])
            rep.clauses["files-present"] += 1
            if got != sorted(O.expected_files(mode)):
                rep.add([O.V("files-present", f"mode {mode} wrote {got}, expected {O.expected_files(mode)}", mode)], 0)
            base_parsed = {}
            for n, text in out["late_files"].items():
                rep.clauses["well-formed"] += 1
                vs, parsed = O.c07_wellformed(text, n)
                rep.add(vs, 0)
                base_parsed[n] = parsed
                rb = out["readback"].get(n)
                rep.clauses["readable"] += 1
                nrec = len(parsed["records"])
                rep.probes["zero_record_files"] += nrec == 0
                if rb is None:
                    continue
                if not rb["ok"]:
                    rep.add([O.V("readable", f"{n} ({nrec} records): the project's XMAP reader raised {rb['type']}: "
                                             f"{rb['msg']}", f"readable|{'zero' if nrec == 0 else 'nonzero'}|{rb['type']}",
                                 file=n)], 0)
                elif len(rb["alignments"]) != nrec:
                    rep.add([O.V("readable", f"{n}: {nrec} records, reader returned {len(rb['alignments'])}",
                                 "readable|count", file=n)], 0)
            if out["files"] != out["late_files"]:
                rep.probes["late_visibility_diffs"] += 1
            rep.probes["records"] += sum(len(p["records"]) for p in base_parsed.values())
            if any(p["records"] for p in base_parsed.values()):
                rep.nontrivial.append(ctx.last_files_digest)
        # unplaceable-silent: the same world without the queries that got no record
        if base_parsed is not None:
            placed = {int(r["QryContigID"]) for p in base_parsed.values() for r in p["records"]}
            allq = [q["id"] for q in case["filesets"]["base"]["queries"]]
            unplaced = [q for q in allq if q not in placed]
            rep.probes["unplaceable_queries"] += len(unplaced)
            if unplaced and placed:
                fs = dict(case["filesets"]["base"])
                fs["queries"] = [q for q in fs["queries"] if q["id"] in placed]
                fs["q_layout"] = dict(fs["q_layout"], order=None)
                ctx.add_fileset("placed", fs)
                ex2 = dict(ex, fileset="placed", readback=None)
                ex2.pop("decisions", None)
                out2 = ctx.execute(ex2)
                rep.clauses["unplaceable-silent"] += 1
                if out2["status"] != "ok":
                    rep.add([O.V("unplaceable-silent", "run without the unplaceable queries aborted: "
                                 f"{(out2['exc'] or {}).get('type')}", "silent|abort")], 1)
                else:
                    p2 = parse_outputs(out2)
                    for n in base_parsed:
                        a = [fmt.record_key(r) for r in base_parsed[n]["records"]]
                        b = [fmt.record_key(r) for r in p2.get(n, {"records": []})["records"]]
                        if a != b:
                            diff = [x for x in a if x not in b] + [x for x in b if x not in a]
                            rep.add([O.V("unplaceable-silent", f"{n}: records of placed queries change when the unplaceable "
                                                               f"queries {unplaced} are removed: {diff[:1]}",
                                         "silent|diff", file=n)], 1)
        return rep


# ----------------------------------------------------------------------------------------------------------
def _keys(parsed, n):
    return [fmt.record_key(r) for r in parsed.get(n, {"records": []})["records"]]


class C08(Base):
    id = "C08"
    klass = "A"
    quick_worlds = 130
    thorough_worlds = 4000

    def gen(self, rng, tier):
        mix = [("chimeric", 5), ("indel", 5), ("noisy", 2), ("planted", 1), ("random", 1)]
        if rng.random() < 0.1:
            mix = [("planted", 3), ("noisy", 1)]         # worlds in which (almost) nothing is left for the second pass
        case = gen_general(rng, mix=mix, aggressive=False)
        case["config"]["-diff"] = rng.choice([0, 20000, 100000, 100000, 10000000])
        base = gen_exec(rng, stream_p=0.0)
        if rng.random() < 0.3:
            base["stale"] = True
        case["executions"] = [dict(base, mode=m) for m in W.MODES]
        return case

    def run(self, case, ctx):
        rep = Report()
        outs = {}
        sep_rows = {}
        for k, ex in enumerate(case["executions"]):
            out = ctx.execute(ex)
            if out["status"] != "ok":
                rep.probes["aborted_executions"] += 1
                return rep
            outs[ex["mode"]] = parse_outputs(out)
            if ex["mode"] == "separate":
                sep_rows = rows_by_file(out)
        maps = maps_for(case, case["executions"][0], ctx)
        diff = O.cfgval(case["config"], "-diff")
        A, S, J = outs["all"], outs["separate"], outs["joined"]

        def eq(clause, a, b):
            rep.clauses[clause] += 1
            if a != b:
                d = [x for x in a if x not in b][:1] + [x for x in b if x not in a][:1]
                rep.add([O.V(clause, f"{clause}: {len(a)} vs {len(b)} records; first differing: {d}", clause)], 3)

        eq("all.main==joined.main", _keys(A, "out.xmap"), _keys(J, "out.xmap"))
        eq("all._1==separate.main", _keys(A, "out_1.xmap"), _keys(S, "out.xmap"))
        eq("all._2==separate._1", _keys(A, "out_2.xmap"), _keys(S, "out_1.xmap"))
        for mode, n, want in (("all", "out_1.xmap", "False"), ("all", "out_2.xmap", "True"),
                              ("separate", "out.xmap", "False"), ("separate", "out_1.xmap", "True")):
            for rec in outs[mode].get(n, {"records": []})["records"]:
                rep.clauses["aligned-rest-flag"] += 1
                if rec.get("AlignedRest") != want:
                    rep.add([O.V("aligned-rest-flag", f"{mode}:{n} record has AlignedRest={rec.get('AlignedRest')}",
                                 f"{mode}:{n}", record=rec["line"])], 0)
        first = {int(r["QryContigID"]): r for r in S.get("out.xmap", {"records": []})["records"]}
        second = {int(r["QryContigID"]): r for r in S.get("out_1.xmap", {"records": []})["records"]}
        unjoined = _keys(J, "out_1.xmap")
        joined = {}
        for r in J.get("out.xmap", {"records": []})["records"]:
            joined.setdefault(int(r["QryContigID"]), []).append(r)
        singles = [(q, r) for q, r in first.items()] + [(q, r) for q, r in second.items()]
        for q, r in singles:
            rep.clauses["partition"] += 1
            inu = fmt.record_key(r) in unjoined
            nj = len(joined.get(q, []))
            if inu and nj:
                rep.add([O.V("partition", f"query {q}: a single-pass record appears un-joined and the query also has a "
                                          f"joined record", "partition|both", record=r["line"])], 2)
            elif not inu and nj != 1:
                rep.add([O.V("partition", f"query {q}: single-pass record neither appears among the un-joined records "
                                          f"nor contributes to exactly one joined record ({nj})", "partition|lost",
                             record=r["line"])], 2)
        single_keys = {fmt.record_key(r) for _, r in singles}
        for kx in unjoined:
            if kx not in single_keys:
                rep.add([O.V("partition", f"joined._1 holds a record that is in neither separate file: {kx[:3]}",
                             "partition|phantom")], 2)
        rep.probes["first_pass_records"] += len(first)
        rep.probes["second_pass_records"] += len(second)
        both = [q for q in first if q in second]
        rep.probes["queries_with_both_passes"] += len(both)
        for q, recs in joined.items():
            for jr in recs:
                rep.probes["joined_records"] += 1
                rep.clauses["join-eligible"] += 1
                a, b = first.get(q), second.get(q)
                sig = f"ori={jr['Orientation']}"
                if a is None or b is None:
                    rep.add([O.V("join-eligible", f"query {q} has a joined record but not both a first- and a second-pass "
                                                  f"record", "eligible|parts", record=jr["line"])], 2)
                    continue
                same = (a["RefContigID"] == b["RefContigID"] == jr["RefContigID"]
                        and a["Orientation"] == b["Orientation"] == jr["Orientation"])
                if not same:
                    rep.add([O.V("join-eligible", f"query {q}: joined record on ref {jr['RefContigID']}{jr['Orientation']} "
                                                  f"but parts on {a['RefContigID']}{a['Orientation']} / "
                                                  f"{b['RefContigID']}{b['Orientation']}", "eligible|ref-strand",
                                 record=jr["line"])], 2)
                    continue
                rpos = maps.refs[int(jr["RefContigID"])]["pos"] if int(jr["RefContigID"]) in maps.refs else None
                if rpos is not None and not O.matching_problems(a["pairs"], a["Orientation"], len(rpos)) and \
                        not O.matching_problems(b["pairs"], b["Orientation"], len(rpos)):
                    # exact: the records' start/end are the coordinates of their first/last listed reference labels
                    gap = abs(max(rpos[a["pairs"][0][0] - 1], rpos[b["pairs"][0][0] - 1])
                              - min(rpos[a["pairs"][-1][0] - 1], rpos[b["pairs"][-1][0] - 1]))
                    tol = 1e-6
                else:
                    gap = abs(max(float(a["RefStartPos"]), float(b["RefStartPos"]))
                              - min(float(a["RefEndPos"]), float(b["RefEndPos"])))
                    tol = 0.11
                if gap > diff + tol:
                    rep.add([O.V("join-eligible", f"query {q}: reference gap {gap:.1f} exceeds -diff {diff}",
                                 "eligible|gap", record=jr["line"])], 2)
                    continue
                union = sorted(set(a["pairs"]) | set(b["pairs"]))
                rep.clauses["subset"] += 1
                extra = [p for p in jr["pairs"] if p not in set(union)]
                if extra:
                    rep.add([O.V("subset", f"query {q}: joined record has pairs {extra[:4]} that are in neither part",
                                 "subset", record=jr["line"])], 2)
                    continue
                ref, qry = maps.refs.get(int(jr["RefContigID"])), maps.queries.get(q)
                valid = ref is not None and qry is not None and O.is_valid_matching(
                    union, jr["Orientation"], len(ref["pos"]), len(qry["pos"]))
                rep.probes["union_valid" if valid else "union_invalid"] += 1
                if valid:
                    rep.clauses["exact-union"] += 1
                    if jr["pairs"] != union:
                        missing = [p for p in union if p not in set(jr["pairs"])]
                        # where do the missing pairs come from?  (segments of the two parts, from the writer tap)
                        nonfirst = set()
                        nseg = []
                        for fname, rec in (("out.xmap", a), ("out_1.xmap", b)):
                            row = next((r for r in sep_rows.get(fname, []) if r["q"] == q), None)
                            if row is None:
                                continue
                            nseg.append(sum(1 for sg in row["segs"] if sg["pos"]))
                            for sg in row["segs"][1:]:
                                nonfirst.update((p_[1], p_[2]) for p_ in sg["pos"] if p_[0] == "P")
                        lo = max(a["pairs"][0][0], b["pairs"][0][0])
                        hi = min(a["pairs"][-1][0], b["pairs"][-1][0])
                        cats = set()
                        both_ = set(a["pairs"]) & set(b["pairs"])
                        left_, right_ = (a, b) if a["pairs"][0][0] <= b["pairs"][0][0] else (b, a)
                        for m_ in missing:
                            if m_ in nonfirst:
                                cats.add("non-first-segment-dropped")
                            elif m_ in both_:
                                cats.add("pair-of-both-parts-dropped")     # no cut can justify losing a pair both parts report
                            elif lo <= m_[0] <= hi:
                                cats.add("cut-inside-the-overlap")
                            elif m_ in set(left_["pairs"]) and m_[0] > right_["pairs"][-1][0]:
                                # the part that starts first on the reference encloses the other one: its conflicting sub-run
                                # runs to its own end, so the single cut also removes its tail beyond the other part
                                cats.add("tail-of-the-enclosing-part-cut")
                            else:
                                cats.add("unexplained")
                        cause = "+".join(sorted(cats)) or "unexplained"
                        rep.add([O.V("exact-union", f"query {q}: union of the parts is a valid matching of {len(union)} "
                                                    f"pairs but the joined record has {len(jr['pairs'])}; missing "
                                                    f"{missing[:6]} (parts have {nseg} non-empty segments)",
                                     f"exact-union|{cause}", record=jr["line"], parts=[a["line"], b["line"]])], 2)
        # boundary probe: set -diff just below one query's exact reference gap; that query must then stay un-joined
        probe = None
        for q in both:
            a, b = first[q], second[q]
            rpos = (maps.refs.get(int(a["RefContigID"])) or {}).get("pos")
            if rpos is None or a["RefContigID"] != b["RefContigID"] or a["Orientation"] != b["Orientation"]:
                continue
            if O.matching_problems(a["pairs"], a["Orientation"], len(rpos)) or O.matching_problems(b["pairs"], b["Orientation"], len(rpos)):
                continue
            g = abs(max(rpos[a["pairs"][0][0] - 1], rpos[b["pairs"][0][0] - 1])
                    - min(rpos[a["pairs"][-1][0] - 1], rpos[b["pairs"][-1][0] - 1]))
            if g >= 1 and abs(g - round(g)) > 0.05:
                probe = (q, g)
                break
        if probe is not None:
            q, g = probe
            exj = dict(next(e for e in case["executions"] if e["mode"] == "joined"))
            exj.pop("decisions", None)
            exj["config"] = {"-diff": int(g)}
            outp = ctx.execute(exj)
            rep.probes["boundary_probes"] += 1
            if outp["status"] == "ok":
                pj = parse_outputs(outp)
                rep.clauses["join-eligible-boundary"] += 1
                hit = [r for r in pj.get("out.xmap", {"records": []})["records"] if int(r["QryContigID"]) == q]
                if hit:
                    rep.add([O.V("join-eligible", f"query {q}: reference gap of its two records is {g:.1f}, -diff {int(g)} is "
                                                  f"smaller, yet a joined record is reported", "eligible|boundary",
                                 record=hit[0]["line"])], 4)
        # a query with both passes eligible but not joined is allowed (the statement says 'only'); count it
        for q in both:
            if q not in joined:
                rep.probes["both_passes_not_joined"] += 1
        if any(p["records"] for o in outs.values() for p in o.values()):
            rep.nontrivial.append(ctx.last_files_digest)
        return rep


import re as _re  # noqa: E402
_TOKM = _re.compile(r"\d+M")


# ----------------------------------------------------------------------------------------------------------
class C09(Base):
    id = "C09"
    klass = "A"
    quick_worlds = 90
    thorough_worlds = 2500
    K = {"quick": 4, "thorough": 8}

    def gen(self, rng, tier):
        fam = rng.choice(["lattice", "lattice", "random", "repetitive"])
        if fam == "lattice":
            mix = [("symmetric-chimera", 6), ("chimeric", 2), ("noisy", 2), ("indel", 1)]
        else:
            mix = [("chimeric", 4), ("noisy", 3), ("indel", 2), ("planted", 1), ("random", 1)]
        case = gen_general(rng, mix=mix, ref_family=fam, aggressive=False, nq=(5, 10))
        mode = rng.choice(W.MODES)
        k = self.K[tier]
        profs = ["serial", "reverse-finish", "one-stalled"] + [rng.choice(ALL_PROFILES[1:]) for _ in range(k - 3)]
        exs = []
        for p in profs:
            ex = gen_exec(rng, mode=mode, profile=p, stream_p=0.15)
            exs.append(ex)
        if rng.random() < 0.5:
            for ex in exs[1:]:
                ex["keep_outputs"] = True      # a repetition into the same output path, without cleaning up in between
        if rng.random() < 0.25:
            for ex in exs:
                ex["stdout"] = True            # -o omitted: the main XMAP is whatever arrives on the process's stdout
        if rng.random() < 0.35:
            base_ = case["filesets"]["base"]     # a short extra contig: some queries are longer than it
            short = W.ref_random(rng, max(r["id"] for r in base_["refs"]) + rng.randint(1, 9), rng.randint(4, 12))
            base_["refs"].append(W.strip(short))
            base_["r_layout"] = W.layout(rng, len(base_["refs"]))
        case["executions"] = exs
        w = getattr(rng, "world_index", None)
        if (w % 41 == 3) if w is not None else rng.random() < 0.012:
            case = big_world(rng)
            mode = rng.choice(["best", "separate"])
            case["executions"] = [gen_exec(rng, mode=mode, profile=p, stream_p=0.0) for p in ("serial", "reverse-finish", "jitter")]
        return case

    def run(self, case, ctx):
        rep = Report()
        ref_files = None
        for k, ex in enumerate(case["executions"]):
            if ctx.secondary and k not in (0, 1):
                continue
            out = ctx.execute(ex)
            files = ctx.last_norm_files
            status = (out["status"], (out.get("exc") or {}).get("type"))
            if out["status"] != "ok":
                rep.probes["aborted_executions"] += 1
            rep.probes["max_iteration_seen"] = max(
                [rep.probes["max_iteration_seen"]] +
                [p[7] for t in out.get("tapped", []) for c in t["cands"] for s in c["row"]["segs"] for p in s["pos"]
                 if p[0] == "P"])
            if ref_files is None:
                ref_files = (files, status, ex)
                rep.extra["exec0_digest"] = ctx.last_files_digest
                rep.extra["exec0_status"] = list(status)
                if out["status"] == "ok":
                    parsed = parse_outputs(out)
                    rep.probes["records"] += sum(len(p["records"]) for p in parsed.values())
                    confs = collections.Counter((r["QryContigID"], r["Confidence"]) for p in parsed.values()
                                                for r in p["records"])
                    rep.probes["equal_confidence_ties"] += sum(1 for v in confs.values() if v > 1)
                    if any(p["records"] for p in parsed.values()):
                        rep.nontrivial.append(ctx.last_files_digest)
                continue
            rep.clauses["byte-identical"] += 1
            f0, s0, ex0 = ref_files
            if status != s0:
                rep.add([O.V("same-outcome", f"execution 0 ({ex0['profile']}, -c {ex0['cpus']}) ended {s0}, execution {k} "
                                             f"({ex['profile']}, -c {ex['cpus']}) ended {status}", "same-outcome")], k)
                continue
            if sorted(files) != sorted(f0):
                rep.add([O.V("same-files", f"execution 0 wrote {sorted(f0)}, execution {k} wrote {sorted(files)}",
                             "same-files")], k)
                continue
            for n in sorted(files):
                if files[n] != f0[n]:
                    a, b = f0[n].split("\n"), files[n].split("\n")
                    i = next((i for i, (x, y) in enumerate(zip(a, b)) if x != y), min(len(a), len(b)))
                    rep.add([O.V("byte-identical", f"{n} differs between execution 0 ({ex0['profile']}, -c {ex0['cpus']}) and "
                                                   f"execution {k} ({ex['profile']}, -c {ex['cpus']}) at line {i + 1}",
                                 f"byte-identical|{case['executions'][0]['mode']}", file=n,
                                 record=(a[i] if i < len(a) else "<eof>"), other=(b[i] if i < len(b) else "<eof>"))], k)
                    break
        return rep


# ----------------------------------------------------------------------------------------------------------
def per_query(parsed_all):
    """{qid: sorted list of (file, record without XmapEntryID)}"""
    out = collections.defaultdict(list)
    for n, p in parsed_all.items():
        for r in p["records"]:
            out[int(r["QryContigID"])].append((n, fmt.record_key(r)))
    return {q: sorted(v) for q, v in out.items()}


class C10(Base):
    id = "C10"
    klass = "A"
    quick_worlds = 120
    thorough_worlds = 3500

    def gen(self, rng, tier):
        case = gen_general(rng, aggressive=False, nq=(6, 10), nrefs=rng.choice([2, 3, 3]))
        base = case["filesets"]["base"]
        mode = rng.choice(W.MODES)
        exs = [dict(gen_exec(rng, mode=mode, stream_p=0.0), variant="base")]
        kinds = rng.sample(["subset", "superset", "permute-q", "shuffle-rows", "permute-r", "qid", "rid", "self-file"],
                           3 if tier == "quick" else 4)
        if "self-file" in kinds and {q["id"] for q in base["queries"]} & {r["id"] for r in base["refs"]}:
            kinds.remove("self-file")          # one file for both roles needs disjoint ids
        qids = [q["id"] for q in base["queries"]]
        rids = [r["id"] for r in base["refs"]]
        for kind in kinds:
            ex = dict(gen_exec(rng, mode=mode, stream_p=0.1), variant=kind)
            fs = {"refs": base["refs"], "queries": base["queries"], "r_layout": dict(base["r_layout"]),
                  "q_layout": dict(base["q_layout"])}
            if kind == "subset":
                keep = sorted(rng.sample(qids, rng.randint(1, max(1, len(qids) - 1))))
                fs["queries"] = [q for q in base["queries"] if q["id"] in keep]
                fs["q_layout"] = W.layout(rng, len(keep))
                ex["common"] = keep
            elif kind == "superset":
                extra_ids = [i for i in W.distinct_ids(rng, 4, 1, 5000) if i not in qids]
                refs = base["refs"]
                extra, _ = W.make_queries(rng, refs, len(extra_ids), [("noisy", 3), ("chimeric", 3), ("random", 1)],
                                          ids=extra_ids)
                fs["queries"] = sorted(base["queries"] + [W.strip(q) for q in extra], key=lambda q: q["id"])
                fs["q_layout"] = W.layout(rng, len(fs["queries"]))
                ex["common"] = qids
            elif kind == "permute-q":
                order = list(range(len(qids)))
                rng.shuffle(order)
                fs["q_layout"] = dict(base["q_layout"], order=order)
                ex["common"] = qids
            elif kind == "shuffle-rows":
                fs["q_layout"] = dict(W.layout(rng, len(qids)), rows=rng.choice(["shuffled", "interleaved"]),
                                      marker="random")
                fs["r_layout"] = dict(W.layout(rng, len(rids)), rows=rng.choice(["shuffled", "interleaved"]),
                                      marker="random")
                ex["common"] = qids
            elif kind == "permute-r":
                order = list(range(len(rids)))
                rng.shuffle(order)
                fs["r_layout"] = dict(base["r_layout"], order=order)
                ex["common"] = qids
            elif kind == "self-file":
                # references and queries in ONE file given as both -r and -q, separated only by -rId / -qId
                base["combined"] = True
                base["c_layout"] = W.layout(rng, len(qids) + len(rids))
                ex.update(fileset="base", self_file=True, qids=list(qids), rids=list(rids), common=qids)
                exs.append(ex)
                continue
            elif kind == "qid":
                keep = sorted(rng.sample(qids, rng.randint(1, len(qids))))
                ex["qids"] = keep + ([keep[0]] if rng.random() < 0.3 else [])      # -qId on the full file (an id may repeat)
                fs2 = dict(fs, queries=[q for q in base["queries"] if q["id"] in keep],
                           q_layout=W.layout(rng, len(keep)))
                case["filesets"]["qid-phys"] = fs2     # ... versus the physically restricted file
                ex2 = dict(gen_exec(rng, mode=mode, stream_p=0.0), variant="qid-phys", fileset="qid-phys", common=keep,
                           against="qid")
                ex["fileset"] = "base"
                ex["common"] = keep
                exs.append(ex)
                exs.append(ex2)
                continue
            elif kind == "rid":
                keep = sorted(rng.sample(rids, rng.randint(1, len(rids))))
                ex["rids"] = keep + ([keep[-1]] if rng.random() < 0.3 else [])
                fs2 = dict(fs, refs=[r for r in base["refs"] if r["id"] in keep], r_layout=W.layout(rng, len(keep)))
                case["filesets"]["rid-phys"] = fs2
                ex2 = dict(gen_exec(rng, mode=mode, stream_p=0.0), variant="rid-phys", fileset="rid-phys", common=qids,
                           against="rid")
                ex["fileset"] = "base"
                ex["common"] = qids
                exs.append(ex)
                exs.append(ex2)
                continue
            name = f"v-{kind}"
            case["filesets"][name] = fs
            ex["fileset"] = name
            exs.append(ex)
        case["executions"] = exs
        return case

    def run(self, case, ctx):
        rep = Report()
        res = {}
        for k, ex in enumerate(case["executions"]):
            out = ctx.execute(ex)
            if out["status"] != "ok":
                rep.probes["aborted_executions"] += 1
                res[ex["variant"]] = None
                continue
            parsed = parse_outputs(out)
            res[ex["variant"]] = (k, per_query(parsed), parsed)
            if ex["variant"] == "base" and any(p["records"] for p in parsed.values()):
                rep.nontrivial.append(ctx.last_files_digest)
                rep.probes["records"] += sum(len(p["records"]) for p in parsed.values())
        if res.get("base") is None:
            return rep
        for ex in case["executions"][1:]:
            v = ex["variant"]
            if res.get(v) is None:
                continue
            k, pq, parsed = res[v]
            if v in ("qid", "rid"):
                continue       # compared through their -phys partner
            against = ex.get("against", "base")
            if res.get(against) is None:
                continue
            k0, pq0, parsed0 = res[against]
            rep.clauses[v] += 1
            if v in ("qid-phys", "rid-phys"):
                # restricting with -qId / -rId gives exactly the records of the physically restricted run
                same = {n: _keys(parsed0, n) == _keys(parsed, n) for n in set(parsed0) | set(parsed)}
                if not all(same.values()):
                    n = sorted(n for n, s in same.items() if not s)[0]
                    a, b = _keys(parsed0, n), _keys(parsed, n)
                    d = [x for x in a if x not in b][:1] + [x for x in b if x not in a][:1]
                    rep.add([O.V(v, f"{against} run ({'-qId' if v == 'qid-phys' else '-rId'} {case['executions'][k0].get('qids') or case['executions'][k0].get('rids')}) "
                                    f"and the physically restricted run differ in {n}: {d}", v, file=n)], k)
                rep.probes[v + "_records"] += sum(len(_keys(parsed, n)) for n in parsed)
                continue
            for q in ex.get("common", []):
                if pq0.get(q, []) != pq.get(q, []):
                    a, b = pq0.get(q, []), pq.get(q, [])
                    d = [x for x in a if x not in b][:1] + [x for x in b if x not in a][:1]
                    # attribution: is the base run itself schedule-dependent?
                    rep.add([O.V(v, f"query {q}: records differ between the base run and the '{v}' variant: {d}",
                                 v, query=q)], k)
                    break
            rep.probes[v + "_compared_queries"] += len(ex.get("common", []))
        return rep


# ----------------------------------------------------------------------------------------------------------
def c11_diagnose(cq, ct, n):
    """Why could a query and its mirror twin disagree?  Compare what the workers built for each (tapped candidates):
       selection-tie : the two candidate sets are exact mirror images, so only the choice among them differs
       same-peaks    : same seed peaks (ref, strand, position) on both sides but different pairs -> chaining / conflict
                       resolution is not mirror-symmetric
       peaks-differ  : the seed peaks themselves differ -> correlation peak picking is not mirror-symmetric"""
    def norm(cs, flip):
        out = []
        for c in cs:
            row = c["row"]
            pairs = sorted((p[1], (n + 1 - p[2]) if flip else p[2]) for s in row["segs"] for p in s["pos"] if p[0] == "P")
            out.append((c["ref"], (not row["rev"]) if flip else row["rev"], tuple(pairs), round(row["conf"], 2)))
        return sorted(out)

    def peaks(cs, flip):
        return sorted((c["ref"], (not c["row"]["rev"]) if flip else c["row"]["rev"],
                       tuple(sorted(s["peak"] for s in c["row"]["segs"]))) for c in cs)

    nq, nt = norm(cq, False), norm(ct, True)
    if nq == nt:
        best = max([x[3] for x in nq] or [0])
        return "selection-tie" if sum(1 for x in nq if x[3] == best) > 1 else "selection-unique"
    if peaks(cq, False) == peaks(ct, True):
        return "same-segment-peaks"
    return "segment-peaks-differ"


class C11(Base):
    id = "C11"
    quick_worlds = 520
    thorough_worlds = 10000

    def gen(self, rng, tier):
        refs = W.make_refs(rng, "lattice", rng.choice([1, 2]))
        for r in refs:
            if len(r["pos"]) > 110:
                r["pos"] = r["pos"][:110]
                r["length"] = r["pos"][-1] + 1400.0
        n = rng.randint(3, 6)
        mix = [("noisy", 4), ("chimeric", 2), ("indel", 4)]
        ids = W.distinct_ids(rng, 2 * n, 1, 5000)
        rng.shuffle(ids)
        qs, truths = W.make_queries(rng, refs, n, mix, ids=ids[:n], lattice=W.LATTICE)
        if rng.random() < 0.25:
            # a reference only ~3 seeding bins longer than a reverse-strand query covering all of it: the seeding correlation
            # has about three lags, and on one strand often no interior peak at all
            tr = W.ref_lattice(rng, max(r["id"] for r in refs) + rng.randint(1, 30), rng.randint(20, 36))
            shift = rng.choice([1, 2]) * W.LATTICE - tr["pos"][0]
            tr["pos"] = [p + shift for p in tr["pos"]]
            tr["length"] = tr["pos"][-1] + rng.choice([1, 2]) * W.LATTICE
            rel = [tr["pos"][-1] - p for p in reversed(tr["pos"])]
            refs.append(tr)
            qs[-1] = {"id": qs[-1]["id"], "length": rel[-1] + 1.0, "pos": rel, "family": "tight"}
        if rng.random() < 0.15:
            # one contig holding a block and, far away, its exact mirror image (an inverted repeat): a query cut from the
            # block fits '+' at one place and '-' at the other with exactly equal confidence
            step = W.LATTICE
            kb = rng.randint(14, 22)
            gaps = [(2 + min(30, int(rng.expovariate(1.0 / 5)))) * step for _ in range(kb - 1)]

            def filler(p, cnt):
                out = []
                for _ in range(cnt):
                    out.append(p)
                    p += (2 + min(30, int(rng.expovariate(1.0 / 5)))) * step
                return out, p
            pos, p = filler(rng.randint(1, 4) * step, rng.randint(8, 16))
            b0 = len(pos)
            pos.append(p)
            for g in gaps:
                p += g
                pos.append(p)
            f2, p = filler(p + rng.randint(40, 120) * step, rng.randint(10, 20))
            pos += f2
            pos.append(p)
            for g in reversed(gaps):
                p += g
                pos.append(p)
            f3, p = filler(p + rng.randint(3, 20) * step, rng.randint(8, 16))
            pos += f3
            ir = {"id": rng.randint(1, 300), "length": float(pos[-1] + 2 * step), "pos": [float(x) for x in pos]}
            refs = [ir]
            qs = []
            for j in range(n):
                a_ = rng.randint(0, 2)
                w_ = pos[b0 + a_:b0 + kb - a_]
                qs.append({"id": ids[j], "length": float(w_[-1] - w_[0] + 1), "pos": [float(x - w_[0]) for x in w_], "family": "inverted-repeat"})
        queries, twins = [], {}
        for q, tid in zip(qs, ids[n:]):
            last = q["pos"][-1]
            first = q["pos"][0]
            tw = {"id": tid, "pos": sorted(W.r1(last - p + first) for p in q["pos"]), "length": q["length"]}
            queries += [W.strip(q), tw]
            twins[str(q["id"])] = tid
        queries.sort(key=lambda m: m["id"])
        cfg = W.swarm_config(rng, lattice=True, aggressive=False)
        cfg["-d"] = rng.choice([300, 500, 600, 650])
        if rng.random() < 0.25:
            cfg["-ss"] = 1                    # the alternative sequentiality score has its own strand handling
        case = {"filesets": {"base": {"refs": [W.strip(r) for r in refs], "queries": queries,
                                      "r_layout": W.layout(rng, len(refs)), "q_layout": W.layout(rng, len(queries))}},
                "config": cfg, "twins": twins, "meta": {"ref_family": "lattice"}}
        case["executions"] = [gen_exec(rng, mode="separate", stream_p=0.05)]
        return case

    def run(self, case, ctx):
        rep = Report()
        ex = case["executions"][0]
        out = ctx.execute(ex)
        if out["status"] != "ok":
            rep.probes["aborted_executions"] += 1
            return rep
        maps = maps_for(case, ex, ctx)
        parsed = parse_outputs(out)
        recs = {}
        for r in parsed.get("out.xmap", {"records": []})["records"]:
            recs.setdefault(int(r["QryContigID"]), r)
        round1 = collections.defaultdict(list)
        for t in out.get("tapped", []):
            if t["task"][0] == 1:
                for c in t["cands"]:
                    round1[c["qry"]].append(c)
        for qs, tid in case["twins"].items():
            q = int(qs)
            a, b = recs.get(q), recs.get(tid)
            rep.clauses["twin"] += 1
            n = len(maps.queries[q]["pos"])
            if maps.queries[q]["pos"] and [p_ - maps.queries[q]["pos"][0] for p_ in maps.queries[q]["pos"]] == \
                    [p_ - maps.queries[tid]["pos"][0] for p_ in maps.queries[tid]["pos"]]:
                # a palindromic query is its own mirror image: "opposite orientation" cannot hold for it
                rep.probes["palindromic_twins_skipped"] += 1
                continue
            diag = c11_diagnose(round1.get(q, []), round1.get(tid, []), n)
            diag += "|sj=" + ("0" if float(case["config"].get("-sj", 1)) == 0 else "pos")
            if (a is None) != (b is None):
                have = a or b
                rep.add([O.V("record-iff", f"query {q} {'has' if a else 'has no'} first-pass record but its mirror image {tid} "
                                           f"{'has' if b else 'has none'}", diag, record=have["line"])], 0)
                continue
            if a is None:
                rep.probes["twins_both_unaligned"] += 1
                continue
            rep.probes["twins_both_aligned"] += 1
            sig = diag
            if a["Orientation"] == b["Orientation"]:
                rep.add([O.V("orientation", f"query {q} and mirror {tid} both reported '{a['Orientation']}'", sig,
                             record=a["line"], other=b["line"])], 0)
                continue
            if a["RefContigID"] != b["RefContigID"]:
                rep.add([O.V("reference", f"query {q} on ref {a['RefContigID']}, mirror {tid} on ref {b['RefContigID']}", sig,
                             record=a["line"], other=b["line"])], 0)
                continue
            ma = sorted((r, k) for r, k in a["pairs"])
            mb = sorted((r, n + 1 - k) for r, k in b["pairs"])
            if ma != mb:
                d = [x for x in ma if x not in mb][:3] + [x for x in mb if x not in ma][:3]
                rep.add([O.V("pairs", f"query {q} vs mirror {tid}: pairs do not mirror (k <-> {n}+1-k); differing {d}", sig,
                             record=a["line"], other=b["line"])], 0)
                continue
            if a["Confidence"] != b["Confidence"]:
                rep.add([O.V("confidence", f"query {q} Confidence {a['Confidence']}, mirror {tid} {b['Confidence']}", sig,
                             record=a["line"], other=b["line"])], 0)
            if (a["RefStartPos"], a["RefEndPos"]) != (b["RefStartPos"], b["RefEndPos"]):
                rep.add([O.V("ref-span", f"query {q} ref span {a['RefStartPos']}-{a['RefEndPos']}, mirror "
                                         f"{b['RefStartPos']}-{b['RefEndPos']}", sig, record=a["line"], other=b["line"])], 0)
            if "D" in a["HitEnum"] or "I" in a["HitEnum"]:
                rep.probes["twins_with_gaps"] += 1
        if recs:
            rep.nontrivial.append(ctx.last_files_digest)
        return rep


# ----------------------------------------------------------------------------------------------------------
def _c17_molecules(rng, ids):
    maps = []
    for mid in ids:
        nl = rng.choice([0, 0, 1, 2, 3, rng.randint(4, 60)])
        p = rng.choice([0.0, 0.0, rng.uniform(0, 5000)])          # a first label exactly at 0.0 is common in real data
        pos = []
        for _ in range(nl):
            pos.append(W.r1(p))
            p += rng.choice([0.0, 0.1, rng.uniform(0.1, 30000)])
        length = W.r1((pos[-1] if pos else 0) + rng.choice([0.0, 1.0, rng.uniform(0, 10000), rng.uniform(1000, 60000)]))
        maps.append({"id": mid, "length": length, "pos": pos})
    return maps


def _c17_filter(rng, present):
    filt = rng.choice([None, None, "present", "absent", "mixed"])
    if 0 in present and rng.random() < 0.5:
        return rng.choice([[0], [0, 0]])
    if rng.random() < 0.1:
        one = rng.choice(present)
        return [one, one]
    if filt == "present":
        return rng.sample(present, rng.randint(1, len(present)))
    if filt == "absent":
        return [max(present) + 1 + i for i in range(rng.randint(1, 3))]
    if filt == "mixed":
        return rng.sample(present, rng.randint(1, len(present))) + [max(present) + 7]
    return None


def c17_body(case):
    """Runs in an isolated child: the real CmapReader driven through simulated streams, against the model parser."""
    from src.correlation.optical_map import OpticalMap
    from src.parsers.cmap_reader import CmapReader
    rep = Report()
    stats = {"reads": 0, "short_reads": 0, "profiles": {}}
    results = []

    def expected(text, filt):
        model = fmt.parse_cmap(text)
        out = []
        for mid in sorted(model):
            m = model[mid]
            if m["pos"] and not (filt and mid not in filt):
                out.append((mid, int(m["length"]), m["pos"]))
        return out

    def read(reader, api, text, name, profile, seed, seekable, filt, vi, what):
        stream = streams.SimTextReader(text, name, profile, seed, seekable)
        stats["reads"] += 1
        stats["profiles"][profile] = stats["profiles"].get(profile, 0) + 1
        expect = expected(text, filt)
        rep.clauses[what] += 1
        try:
            got = getattr(reader, api)(stream, filt)
            got = [(int(m.moleculeId), m.length, [float(p) for p in m.positions]) for m in got]
        except BaseException as e:  # noqa: BLE001
            rep.add([O.V("reader-raises", f"CmapReader.{api} raised {type(e).__name__}: {str(e)[:120]} ({what}, profile "
                                          f"{profile}, seekable {seekable}, {len(expect)} molecules expected)",
                         f"raises|{type(e).__name__}|{'empty' if not expect else 'nonempty'}")], vi)
            return None
        stats["short_reads"] += stream.short_reads
        if got != expect:
            why = "ids" if [g[0] for g in got] != [e[0] for e in expect] else \
                "length" if [g[1] for g in got] != [e[1] for e in expect] else "positions"
            rep.add([O.V("model" if what == "read" else "history", f"CmapReader.{api} ({what}, chunks {profile}, filter {filt}) "
                                  f"returned {[(g[0], g[1], len(g[2])) for g in got][:4]} expected "
                                  f"{[(e[0], e[1], len(e[2])) for e in expect][:4]} ({why} differ)", f"{what}|{why}")], vi)
        return got

    for vi, v in enumerate(case["variants"]):
        text = fmt.write_cmap(case["maps"], v["layout"])
        got = read(CmapReader(), v["api"], text, "in.cmap", v["profile"], v["seed"], v["seekable"], case["filter"], vi, "read")
        if got is None:
            continue
        results.append(got)
        for mid, length, pos in got:       # the trimming sentence, asserted on every map read
            t = OpticalMap(mid, length, pos).trim()
            rep.clauses["trim"] += 1
            ok = (t.positions[0] == 0 and len(t.positions) == len(pos)
                  and all(abs((b - a) - (d - c)) < 1e-6 for a, b, c, d in zip(pos, pos[1:], t.positions, t.positions[1:]))
                  and abs(t.length - (pos[-1] - pos[0] + 1)) < 1e-6 and t.trim().positions == t.positions
                  and t.trim().length == t.length and t.moleculeId == mid)
            if not ok:
                rep.add([O.V("trim", f"trim of molecule {mid} (first label {pos[0]}, {len(pos)} labels, length {length}) gives "
                                     f"first {t.positions[0]}, {len(t.positions)} labels, length {t.length}; expected length "
                                     f"{pos[-1] - pos[0] + 1}", "trim")], vi)
        if got:
            rep.nontrivial.append(world_digest([case["maps"], v["layout"], v["profile"], case["filter"]]))
    if len(results) == len(case["variants"]) and any(r != results[0] for r in results[1:]):
        rep.add([O.V("stream-independent", "the same molecule set read through different layouts / chunkings "
                                           "gives different results", "stream-independent")], 0)
    # history: ONE reader object, several reads (same stream name, different filters / different content)
    reader = CmapReader()
    hist_results = []
    for hi, h in enumerate(case.get("history", [])):
        text = fmt.write_cmap(case["maps"] if h["maps"] == "A" else case["maps_b"], h["layout"])
        hist_results.append(read(reader, h["api"], text, h["name"], h["profile"], h["seed"], h["seekable"], h["filter"],
                                 100 + hi, "history"))
    out = rep.as_dict()
    out["stats"] = stats
    out["digest"] = world_digest([results, hist_results, [v["clause"] for v in rep.violations]])
    return out


def world_digest(obj):
    from . import world
    return world.digest(obj)


class C17(Base):
    id = "C17"
    klass = "A"
    quick_worlds = 10000
    thorough_worlds = 600000
    in_process = True

    def gen(self, rng, tier):
        n = rng.randint(1, 8)
        ids = rng.sample(range(1, 100000), n) if rng.random() < 0.5 else W.distinct_ids(rng, n, 0, 60)
        if rng.random() < 0.15:
            ids[rng.randrange(n)] = 2 ** 53 + 1 + 2 * rng.randint(0, 1000)       # a 64-bit id no double can hold
        if rng.random() < 0.15 and 0 not in ids:
            ids[rng.randrange(n)] = 0
        maps = _c17_molecules(rng, ids)
        present = [m["id"] for m in maps]
        variants = []
        for _ in range(3):
            lay = W.layout(rng, n)
            variants.append({"layout": lay, "profile": rng.choice(streams.CHUNK_PROFILES),
                             "seed": rng.randrange(1 << 20), "seekable": rng.random() < 0.5,
                             "api": rng.choice(["readQueries", "readReferences"])})
        # second molecule set re-using some ids with other coordinates, for the one-reader history
        ids_b = sorted(set(rng.sample(present, rng.randint(1, len(present))) + [max(present) + rng.randint(1, 9)]))
        maps_b = _c17_molecules(rng, ids_b)
        history = []
        for _ in range(rng.randint(2, 4)):
            which = rng.choice(["A", "A", "B"])
            pres = present if which == "A" else ids_b
            history.append({"maps": which, "layout": W.layout(rng, len(pres)), "name": rng.choice(["in.cmap", "in.cmap", "other.cmap"]),
                            "filter": _c17_filter(rng, pres), "api": rng.choice(["readQueries", "readReferences"]),
                            "profile": rng.choice(streams.CHUNK_PROFILES), "seed": rng.randrange(1 << 20),
                            "seekable": rng.random() < 0.5})
        return {"maps": maps, "maps_b": maps_b, "filter": _c17_filter(rng, present), "variants": variants, "history": history}

    def run(self, case, ctx):
        from . import world
        res = world.isolated(c17_body, case)
        rep = Report()
        rep.violations = res["violations"]
        rep.probes.update(res["probes"])
        rep.clauses.update(res["clauses"])
        rep.nontrivial = res["nontrivial"]
        st = res["stats"]
        ctx.n_exec += st["reads"]
        ctx.short_reads += st["short_reads"]
        ctx.faults["short_reads"] = ctx.faults.get("short_reads", 0) + st["short_reads"]
        for k, v in st["profiles"].items():
            ctx.stream_profiles[k] = ctx.stream_profiles.get(k, 0) + v
        rep.probes["history_reads"] += len(case.get("history", []))
        ctx.world_digests.append(res["digest"])
        ctx.exec_digests.add(res["digest"])
        return rep


# ----------------------------------------------------------------------------------------------------------
class C18(Base):
    id = "C18"
    klass = "A"
    quick_worlds = 420
    thorough_worlds = 12000

    def gen(self, rng, tier):
        case = gen_general(rng, aggressive=False)
        if rng.random() < 0.3:
            fs = case["filesets"]["base"]
            fs["queries"] = fs["queries"][:rng.randint(1, 2)]       # one-record files
            fs["q_layout"] = W.layout(rng, len(fs["queries"]))
        for q in case["filesets"]["base"]["queries"]:
            if rng.random() < 0.4:
                off = W.r1(rng.uniform(1, 40000))
                q["pos"] = [W.r1(p + off) for p in q["pos"]]
                q["length"] = W.r1(q["length"] + off)
        case["executions"] = [gen_exec(rng, readback=True) for _ in range(2)]
        if rng.random() < 0.5:
            # 'alt': other maps under the *same* molecule ids; execution 0 runs on alt, its files become decoys that the
            # reader of execution 1 (same process as that run's read-back) has to read first
            base = case["filesets"]["base"]
            rng2 = random.Random(rng.randrange(1 << 30))
            alt_refs = W.make_refs(rng2, None, len(base["refs"]), ids=[r["id"] for r in base["refs"]])
            for r in alt_refs:
                if len(r["pos"]) > 100:
                    r["pos"] = r["pos"][:100]
                    r["length"] = W.r1(r["pos"][-1] + 500)
            alt_q, _ = W.make_queries(rng2, alt_refs, len(base["queries"]), [("noisy", 3), ("chimeric", 3), ("planted", 1)],
                                      ids=[q["id"] for q in base["queries"]])
            case["filesets"]["alt"] = {"refs": [W.strip(r) for r in alt_refs], "queries": [W.strip(q) for q in alt_q],
                                       "r_layout": W.layout(rng2, len(alt_refs)), "q_layout": W.layout(rng2, len(alt_q))}
            case["executions"][0]["fileset"] = "alt"
            case["executions"][0]["save_as_decoy"] = True
            case["executions"][1]["readback"]["decoy"] = "alt"
        for ex in case["executions"]:
            if rng.random() < 0.25:
                ex["stale"] = True
            if rng.random() < 0.15:
                ex["out_name"] = rng.choice(["run#hg38/out.xmap", "out", "a b/out.xmap"])
        return case

    def run(self, case, ctx):
        rep = Report()
        for k, ex in enumerate(case["executions"]):
            out = ctx.execute(ex)
            if out["status"] != "ok":
                rep.probes["aborted_executions"] += 1
                continue
            maps = maps_for(case, ex, ctx)
            parsed = parse_outputs(out)
            probes_single(rep, out, parsed)
            rep.clauses["visible-at-return"] += 1
            if out["files"] != out["late_files"]:
                n = sorted(set(out["files"]) | set(out["late_files"]))
                n = [x for x in n if out["files"].get(x) != out["late_files"].get(x)][0]
                rep.add([O.V("visible-at-return", f"{n}: a reader that opens the file the moment run() has returned sees "
                                                  f"{len(out['files'].get(n, ''))} characters, the finished file has "
                                                  f"{len(out['late_files'].get(n, ''))}", "visible-at-return", file=n)], k)
            if ex.get("save_as_decoy"):
                ctx.save_decoys(out)
            if out.get("readback_decoy"):
                dmaps = O.Maps(*ctx.texts[ex["readback"]["decoy"]])
                for n, rb in sorted(out["readback_decoy"].items()):
                    if n == "_error":
                        rep.add([O.V("reader-raises", f"decoy setup failed: {rb}", "decoy")], k)
                        continue
                    dp = fmt.parse_xmap(rb.get("text", ""))
                    if dp["records"]:
                        rep.clauses["decoy-file"] += 1
                        rep.add(O.c18_file(dp, rb, dmaps, n), k)
                rep.probes["histories_with_decoy_reads"] += 1
            for n, p in parsed.items():
                if not p["records"]:
                    rep.probes["zero_record_files_skipped"] += 1
                    continue
                rb = out["readback"].get(n)
                if rb is None:
                    continue
                rep.clauses["file"] += 1
                rep.clauses["record"] += len(p["records"])
                rep.probes["readback_short_reads"] += rb.get("short_reads", 0)
                rep.probes["one_record_files"] += len(p["records"]) == 1
                rep.add(O.c18_file(p, rb, maps, n), k)
                frows = rows_by_file(out).get(n)
                if rb.get("ok") and frows and len(frows) == len(rb["alignments"]) == len(p["records"]):
                    for rec, row, a in zip(p["records"], frows, rb["alignments"]):
                        rep.clauses["conf-two-decimals"] += 1
                        try:
                            if abs(float(a["conf"]) - row["conf"]) > 0.005 + 1e-9 * abs(row["conf"]):
                                rep.add([O.V("conf-two-decimals", f"{n}: the alignment's confidence is {row['conf']:.4f}, read back "
                                                                  f"{a['conf']} (not equal to two decimals)", "conf-two-decimals",
                                             record=rec["line"], file=n)], k)
                                break
                        except (TypeError, ValueError):
                            pass
            if any(p["records"] for p in parsed.values()):
                rep.nontrivial.append(ctx.last_files_digest)
        return rep


PROPS = {c.id: c() for c in (C01, C02, C03, C04, C05, C06, C07, C08, C09, C10, C11, C17, C18)}
