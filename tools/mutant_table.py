"""Prints the DESIGN.md section-11 table from seeded/*/meta.json."""
import glob
import json
import os

DESC = {
 "C01-A": "conflict-resolution loop refactored to zip over the original chain: head-trim of inner segments lost (needs >= 3 chained segments)",
 "C01-B": "reverse-strand branch of getPositionsWithSiteIds drops `+ shift` (tail fragments, '-' strand, joined records)",
 "C01-C": "sorted() removed before groupby in pair de-duplication (a query label nearest to two reference labels)",
 "C02-A": "reverse coordinates mirrored about positions[-1] instead of length-1 (prefix fragments on '-')",
 "C02-B": "XmapReader keeps a running XmapEntryID across the files of one run",
 "C02-C": "trim() returns early when the first label is at 0.0 (length not re-measured)",
 "C03-A": "insertion step of HitEnum rewritten: wrong on '-' with insertions and deletions in one gap",
 "C03-B": "single-pair record gets an empty HitEnum",
 "C04-A": "lru_cache on pair scoring keyed by AlignedPair (hash ignores queryShift): worker-persistent, schedule-dependent",
 "C04-B": "join appends the remaining segments after Confidence was computed",
 "C05-A": "seed peaks selected per reference instead of over all references",
 "C05-B": "per-worker batching re-interleaved with zip: drops the last N % workers queries",
 "C06-A": "trim() early return at first label 0.0: reverse-strand planted copies with a trailing length misplaced",
 "C06-B": "query batching with floor division drops the tail (needs >= 8 x cpus queries)",
 "C07-A": "zero-denominator guard dropped in the -ss 1 scorer (ZeroDivisionError in a worker)",
 "C07-B": "extra output file name built with rsplit('.') (extension-less -o path aborts in separate/joined/all)",
 "C08-A": "resolve() fed the unfiltered second-pass rows (three-part queries)",
 "C08-B": "join grouped by query only + check_overlap ignores the reference (two cooperating sites)",
 "C08-C": "-diff 0 treated as 'not supplied'",
 "C09-A": "module-level getSequence cache keyed by (id, length, resolution, blur): both fragments of one query collide, worker-dependent",
 "C09-B": "p_imap -> p_uimap (visible only through an exact confidence tie of the two second-pass fragments of one query)",
 "C10-A": "process-lifetime vector cache keyed by CMapId (query id = reference id, same worker)",
 "C10-B": "CMAP end marker taken from the last row of the group",
 "C10-C": "one-record-per-query filter groups after sorting by confidence only",
 "C11-A": "PositionWithSiteId made order=True (orders by siteId first: '-' strand conflict resolution inverted)",
 "C11-B": "reverse-strand correlation skipped when the forward one has exactly one peak",
 "C17-A": "CmapReader caches the already-filtered rows per file name (same reader, same file, other filter: `-r f -q f`)",
 "C17-B": "trim() early return at first label 0.0",
 "C18-A": "reader parses rows via groupby(QryContigID): file order lost (joined-mode _1 file)",
 "C18-B": "class-level id->map cache shared by all parser instances (two data sets in one process)",
 "C01-R2A": "query label list memoised by id(query) in a class-level dict (address reuse across tasks of one worker)",
 "C01-R2B": "reference label lists prepared in the parent before the fork and never refreshed (second run in one process, same CMapId)",
 "C02-R2A": "reference maps reach workers by fork inheritance (class attribute): wrong after an aborted run leaves pathos' cached pool behind",
 "C02-R2B": "map length taken from the last row of a molecule",
 "C02-R2C": "mutable default argument accumulates second-pass fragments across runs in one process",
 "C03-R2A": "HitEnum strings built with an unordered pool map when a file has >= 256 records and -c > 1",
 "C03-R2B": "HitEnum pre-built in the worker and memoised per (query, reference, strand) in worker state: second fragment of a query gets the first one's",
 "C04-R2A": "AlignmentSegment.__getstate__ drops unpaired labels when pickled back from a worker (joined records re-summed wrongly)",
 "C04-R2B": "Aligner (scorer, engine, factory) cached in a class attribute: a later run in the process is scored with the first run's parameters",
 "C05-R2A": "per-worker memo of __align keyed by label pattern without the molecule id (identical molecules, same worker)",
 "C05-R2B": "_1/_2 output files opened in append mode (re-used output path)",
 "C06-R2A": "reference primary vector cached in the parent and inherited at fork (second run in one process, same CMapId)",
 "C06-R2B": "per-worker cache of the refine window keyed without the window end (short query first, same worker)",
 "C07-R2A": "class-level lru_cache keeps each task's coordinator alive: one leaked descriptor per task, worker dies at the descriptor limit",
 "C07-R2B": "header detection by tell()/read(65536)/seek(): aborts on non-seekable or short-reading streams",
 "C08-R2A": "p_imap -> p_uimap (cross-mode disagreement only between runs with different completion orders)",
 "C08-R2B": "_1/_2 output files opened in append mode",
 "C09-R2A": "one contiguous batch per worker, results collected in a dict keyed by molecule id: which fragment survives depends on --cpus",
 "C09-R2B": "rows partitioned by iterating a set of orientation strings: order in joined-mode _1 follows PYTHONHASHSEED",
 "C10-R2A": "p_uimap + dict keyed by query id: the fragment whose task finished last wins",
 "C10-R2B": "second pass searches only references hit by *some* query in the first pass",
 "C11-R2A": "resolve() overwrites the first-pass row object in place (all-mode _1 written after the join)",
 "C11-R2B": "trim() early return at first label 0.0 (reverse strand, unlabelled tail)",
 "C17-R2A": "a short read is taken for end of file (reader loads the stream in blocks)",
 "C17-R2B": "drop_duplicates() on (CMapId, Position, LabelChannel): coincident labels collapse",
 "C18-R2A": "a short read is taken for end of file",
 "C18-R2B": "_1/_2 handles kept open on the coordinator: not flushed while the Program object is alive",
}
rows = []
for d in sorted(glob.glob(os.path.join(os.path.dirname(__file__), "..", "seeded", "*", "meta.json"))):
    m = json.load(open(d))
    own = m["breaks_property"]
    runs = m["checks_run"]
    caught = m["caught_by"]
    own_res = {1: "caught", 0: "missed", 2: "harness error (nondeterministic)"}.get(runs.get(own, {}).get("exit"), "not run")
    others = [c for c in caught if c != own]
    rows.append(f"| {m['id']} | {DESC.get(m['id'], '')} | {own_res} | {', '.join(others) or '-'} |")
print("| id | change | own check | also caught by |")
print("|----|--------|-----------|----------------|")
print("\n".join(rows))
