"""SimPool: a discrete-event scheduler that drives real forked worker processes one at a time.

It replaces `p_tqdm.p_tqdm.Pool` (pathos ProcessPool).  What is real: the worker processes (forked from the
caller at the moment a map starts, so they inherit the caller's memory of that pool round), the per-task
`dill` copy of the function and its closure, the `dill` copy of every result, and every side effect a task
has.  What is simulated: how many workers there are, which idle worker takes the next task, how long every
task takes, when the parent consumes a result - i.e. every choice an OS scheduler would make.  All of those
choices are draws from one DecisionSource (PRNG or recorded script) and every draw is logged.
"""
from __future__ import annotations

import ctypes
import heapq
import os
import pickle
import random
import select
import signal
import struct
import sys

import dill

from . import taps

PROFILES = ("serial", "lockstep", "jitter", "one-stalled", "reverse-finish", "wide", "late-start")
TASK_TIMEOUT_S = float(os.environ.get("COMASIM_TASK_TIMEOUT", "120"))


class HarnessError(Exception):
    pass


# ----------------------------------------------------------------------------------------------------------
# decisions
class DecisionSource:
    """Every nondeterministic choice of the simulator goes through draw()."""

    def __init__(self, seed, script=None):
        self.rng = random.Random(seed)
        self.script = list(script) if script is not None else None
        self.cursor = 0
        self.log = []           # [kind, value] in draw order - this *is* the schedule
        self.fallbacks = 0      # scripted draws that had to fall back to the PRNG

    def draw(self, kind, fn):
        v = None
        if self.script is not None and self.cursor < len(self.script) and self.script[self.cursor][0] == kind:
            v = self.script[self.cursor][1]
            self.cursor += 1
        else:
            if self.script is not None:
                self.fallbacks += 1
            v = fn(self.rng)
        self.log.append([kind, v])
        return v


# ----------------------------------------------------------------------------------------------------------
# simulation state shared by all pools of one execution (one world process = one execution)
class SimState:
    def __init__(self, decisions: DecisionSource, profile: str, watch_paths=()):
        if profile not in PROFILES:
            raise HarnessError("unknown profile " + profile)
        self.dec = decisions
        self.profile = profile
        self.now = 0.0
        self.seq = 0
        self.events = []
        self.round = 0
        self.watch_paths = list(watch_paths)
        self.parent_fds = set()      # parent-side pipe ends; every forked child closes them
        self.extra_close = set()     # other fds a worker must not keep (result pipe of the world process)
        self.live = []               # live _Worker objects
        self.pool_cache = {}         # nodes -> SimPool never cleared (pathos caches pools by size; an aborted map leaves one)
        self.round_offset = 0        # pool rounds used up by prelude runs in the same process
        self.fd_margin = None        # fault: workers may open at most this many descriptors beyond what they start with
        self.stats = {
            "pools": 0, "rounds_with_tasks": 0, "tasks": 0, "workers_forked": 0, "nodes": [],
            "assign_choices": 0, "inversions": 0, "stalls": 0, "max_overtaken": 0, "max_tasks_one_worker": 0,
            "bytes_task": 0, "bytes_result": 0, "task_exceptions": 0, "bytes_destroyed": 0,
            "worker_output_handles": 0, "signatures": [], "unordered_maps": 0, "late_starts": 0, "fd_limited_workers": 0,
            "stale_pool_reuses": 0,
        }

    def ev(self, kind, *ids):
        self.seq += 1
        self.events.append([self.seq, round(self.now, 9), kind] + list(ids))

    def kill_all(self):
        for w in list(self.live):
            w.kill()
        self.live = []


STATE: SimState | None = None


def install(state: SimState):
    """Take the seams.  Called inside the world process before any `src` code runs."""
    global STATE
    STATE = state
    import p_tqdm.p_tqdm as pt
    pt.Pool = SimPool
    return state


# ----------------------------------------------------------------------------------------------------------
# framing
def _write_all(fd, data):
    view = memoryview(data)
    while view:
        n = os.write(fd, view)
        view = view[n:]


def _send(fd, payload: bytes):
    _write_all(fd, struct.pack(">Q", len(payload)) + payload)


def _read_exact(fd, n, timeout):
    chunks = []
    while n:
        if timeout is not None:
            r, _, _ = select.select([fd], [], [], timeout)
            if not r:
                raise TimeoutError
        b = os.read(fd, min(n, 1 << 20))
        if not b:
            raise EOFError
        chunks.append(b)
        n -= len(b)
    return b"".join(chunks)


def _recv(fd, timeout=None):
    (n,) = struct.unpack(">Q", _read_exact(fd, 8, timeout))
    return _read_exact(fd, n, timeout)


def set_pdeathsig():
    try:
        ctypes.CDLL(None).prctl(1, signal.SIGKILL)
    except Exception:
        pass


# ----------------------------------------------------------------------------------------------------------
# workers
def _watch(paths):
    out = []
    for p in paths:
        try:
            out.append(os.stat(p).st_size)
        except OSError:
            out.append(-1)
    return out


def _handles_on(paths):
    if not paths:
        return 0
    want = {os.path.realpath(p) for p in paths}
    n = 0
    try:
        for fd in os.listdir("/proc/self/fd"):
            try:
                if os.readlink("/proc/self/fd/" + fd) in want:
                    n += 1
            except OSError:
                pass
    except OSError:
        pass
    return n


def _worker_loop(rfd, wfd, round_no, watch_paths, fd_margin=None):
    base_handles = _handles_on(watch_paths)
    if fd_margin is not None:
        import resource
        n0 = len(os.listdir("/proc/self/fd"))
        soft, hard = resource.getrlimit(resource.RLIMIT_NOFILE)
        resource.setrlimit(resource.RLIMIT_NOFILE, (min(hard, n0 + fd_margin), hard))
    while True:
        msg = _recv(rfd)
        if msg[:1] == b"X":
            return
        idx, payload, task_round = pickle.loads(msg[1:])
        taps.begin(task_round, idx)
        pre = _watch(watch_paths)
        try:
            f, a = dill.loads(payload)
            res = f(*a)
            ok, body = True, dill.dumps(res)
        except BaseException as e:  # noqa: BLE001 - exactly what multiprocess does
            ok = False
            import traceback
            frames = [f for f in traceback.extract_tb(e.__traceback__) if "/src/" in f.filename]
            info = {"type": type(e).__name__, "msg": str(e)[:500],
                    "frame": (frames[-1].filename.split("/src/")[-1] + ":" + frames[-1].name) if frames else ""}
            try:
                body = dill.dumps((e, info))
            except Exception:
                body = dill.dumps((RuntimeError(f"{type(e).__name__}: {e}"), info))
        post = _watch(watch_paths)
        handles = _handles_on(watch_paths) - base_handles
        _send(wfd, pickle.dumps((ok, body, taps.end(), pre, post, handles)))


class _Worker:
    def __init__(self, state: SimState, wid: int, round_no: int):
        self.wid = wid
        self.state = state
        self.tasks_run = 0
        p2c_r, p2c_w = os.pipe()
        c2p_r, c2p_w = os.pipe()
        sys.stdout.flush()
        sys.stderr.flush()
        pid = os.fork()
        if pid == 0:
            code = 0
            try:
                set_pdeathsig()
                for fd in list(state.parent_fds) + list(state.extra_close) + [p2c_w, c2p_r]:
                    try:
                        os.close(fd)
                    except OSError:
                        pass
                _worker_loop(p2c_r, c2p_w, round_no - state.round_offset, state.watch_paths, state.fd_margin)
            except BaseException:  # noqa: BLE001
                code = 70
            finally:
                try:
                    sys.stdout.flush()
                    sys.stderr.flush()
                except Exception:
                    pass
                os._exit(code)
        os.close(p2c_r)
        os.close(c2p_w)
        self.pid, self.wfd, self.rfd = pid, p2c_w, c2p_r
        state.parent_fds.update((self.wfd, self.rfd))
        state.live.append(self)
        state.stats["workers_forked"] += 1
        if state.fd_margin is not None:
            state.stats["fd_limited_workers"] += 1

    def run(self, idx, payload, task_round=0):
        _send(self.wfd, b"T" + pickle.dumps((idx, payload, task_round)))
        try:
            out = pickle.loads(_recv(self.rfd, TASK_TIMEOUT_S))
        except TimeoutError:
            self.kill()
            raise HarnessError(f"task {idx} exceeded {TASK_TIMEOUT_S}s wall clock") from None
        except EOFError:
            self.kill()
            raise HarnessError(f"worker {self.wid} died while running task {idx}") from None
        self.tasks_run += 1
        return out

    def stop(self):
        try:
            _send(self.wfd, b"X")
        except OSError:
            pass
        self._reap()

    def kill(self):
        try:
            os.kill(self.pid, signal.SIGKILL)
        except OSError:
            pass
        self._reap()

    def _reap(self):
        for fd in (self.wfd, self.rfd):
            try:
                os.close(fd)
            except OSError:
                pass
            self.state.parent_fds.discard(fd)
        try:
            os.waitpid(self.pid, 0)
        except OSError:
            pass
        if self in self.state.live:
            self.state.live.remove(self)


# ----------------------------------------------------------------------------------------------------------
class _AsyncResult:
    def __init__(self, values):
        self._values = values

    def get(self, timeout=None):
        return self._values

    def ready(self):
        return True


class SimPool:
    """Stands in for pathos.multiprocessing.ProcessPool."""

    def __init__(self, nodes=None, *args, **kwds):
        st = STATE
        if st is None:
            raise HarnessError("SimPool used without an installed SimState")
        if nodes is None:
            nodes = kwds.get("ncpus") or kwds.get("nodes")
        if nodes is None:
            import p_tqdm.p_tqdm as pt
            nodes = pt.cpu_count()
        if int(nodes) < 1:
            raise ValueError("Number of processes must be at least 1")      # what multiprocess.Pool(0) says
        self.nodes = int(nodes)
        self.state = st
        self.workers = {}
        st.round += 1
        self.round = st.round          # absolute; workers are told round - round_offset (1 = first pass of the main run)
        st.stats["pools"] += 1
        st.stats["nodes"].append(self.nodes)
        st.ev("pool", self.round, self.nodes)
        stale = st.pool_cache.get(self.nodes)
        if stale is not None and stale.workers:
            # pathos hands back the cached pool: its workers were forked during the earlier (aborted) map
            self.workers = stale.workers
            st.stats["stale_pool_reuses"] += 1
            st.ev("stale-pool", self.round, self.nodes, len(self.workers))
        st.pool_cache[self.nodes] = self

    # -- the pathos surface ---------------------------------------------------------------------------
    def imap(self, f, *iterables, **kwds):
        return self._map(f, iterables, ordered=True)

    def uimap(self, f, *iterables, **kwds):
        self.state.stats["unordered_maps"] += 1
        return self._map(f, iterables, ordered=False)

    def map(self, f, *iterables, **kwds):
        return list(self._map(f, iterables, ordered=True))

    def amap(self, f, *iterables, **kwds):
        return _AsyncResult(list(self._map(f, iterables, ordered=True)))

    def pipe(self, f, *args, **kwds):
        return next(self._map(f, [[a] for a in args], ordered=True))

    def clear(self):
        for w in list(self.workers.values()):
            w.stop()
        self.workers = {}
        if self.state.pool_cache.get(self.nodes) is self:
            del self.state.pool_cache[self.nodes]
        self.state.ev("clear", self.round)

    close = join = terminate = lambda self: None  # noqa: E731

    def restart(self, force=False):
        return None

    def __enter__(self):
        return self

    def __exit__(self, *a):
        self.clear()

    # -- scheduling -------------------------------------------------------------------------------------
    def _plan(self, ntasks):
        """Decide (worker, start, end) for every task.  All tasks are submitted at once (as multiprocess's
        task feeder does); each goes to the worker that is idle first, ties broken by a decision."""
        st, dec, prof = self.state, self.state.dec, self.state.profile
        n = 1 if prof == "serial" else self.nodes
        t0 = st.now
        free_at = []
        for w in range(n):
            if prof in ("jitter", "one-stalled", "late-start") and n > 1:
                lat = dec.draw("start-latency", lambda r: round(r.expovariate(4.0), 6))
                if prof == "late-start" and w == 0:
                    lat = 0.0
                elif prof == "late-start":
                    lat = round(lat + dec.draw("late-start", lambda r: round(r.uniform(0, 2.0 * max(1, ntasks)), 6)), 6)
                    st.stats["late_starts"] += 1
            else:
                lat = 0.0
            free_at.append(t0 + lat)
        stalled_task = None
        if prof == "one-stalled" and ntasks > 0:
            stalled_task = dec.draw("stalled-task", lambda r: r.randrange(ntasks))
        plan = []
        for i in range(ntasks):
            tmin = min(free_at)
            cands = [w for w in range(n) if free_at[w] <= tmin + 1e-12]
            if len(cands) > 1:
                st.stats["assign_choices"] += 1
                if prof in ("lockstep", "reverse-finish"):
                    w = cands[0]
                else:
                    w = cands[dec.draw("assign", lambda r, k=len(cands): r.randrange(k))]
            else:
                w = cands[0]
            if prof in ("serial", "lockstep", "wide"):
                dur = 1.0
            elif prof == "reverse-finish":
                dur = float(2 * (ntasks - i))
            else:
                dur = dec.draw("duration", lambda r: round(r.lognormvariate(0.0, 0.75), 6))
                if i == stalled_task:
                    dur = round(dur * dec.draw("stall-factor", lambda r: round(r.uniform(50, 500), 3)), 6)
                    st.stats["stalls"] += 1
                elif prof == "jitter" and dec.draw("stall?", lambda r: r.random() < 0.04):
                    dur = round(dur * dec.draw("stall-factor", lambda r: round(r.uniform(50, 500), 3)), 6)
                    st.stats["stalls"] += 1
            start = free_at[w]
            end = round(start + dur, 6)
            free_at[w] = end
            # when, inside [start, end], the task's side effects happen (it is executed as one atomic step at that moment):
            # overlapping tasks of different workers can so take effect in any order, as their writes to a shared
            # descriptor would in a real pool
            if prof in ("serial", "lockstep"):
                frac = 0.0
            elif prof == "reverse-finish":
                frac = 1.0
            else:
                frac = dec.draw("effect-frac", lambda r: round(r.random(), 6))
            plan.append((w, start, end, round(start + frac * (end - start), 6)))
        return plan

    def _map(self, f, iterables, ordered):
        st = self.state
        items = list(zip(*iterables))
        ntasks = len(items)
        plan = self._plan(ntasks)
        if ntasks:
            st.stats["rounds_with_tasks"] += 1
        # fork every worker that will run something, now: they inherit the caller's memory as of this call
        for w in sorted({p[0] for p in plan}):
            if w not in self.workers:
                self.workers[w] = _Worker(st, w, self.round)
        for i, (w, s, e, x) in enumerate(plan):
            st.ev("assign", self.round, i, w, round(s, 6), round(e, 6), x)
        # interleaving signature: (nodes, task->worker map, completion permutation)
        completion = sorted(range(ntasks), key=lambda i: (plan[i][2], i))
        effect_order = sorted(range(ntasks), key=lambda i: (plan[i][3], i))
        st.stats["signatures"].append([self.nodes, [p[0] for p in plan], completion, effect_order])
        inv = 0
        rank = {t: k for k, t in enumerate(completion)}
        for i in range(ntasks):
            over = sum(1 for j in range(i + 1, ntasks) if rank[j] < rank[i])
            inv += over
            st.stats["max_overtaken"] = max(st.stats["max_overtaken"], over)
        st.stats["inversions"] += inv
        starts = [(plan[i][3], i) for i in range(ntasks)]          # ordered by effect time
        heapq.heapify(starts)
        results = {}
        order = list(range(ntasks)) if ordered else completion
        done_upto = 0.0
        for k, i in enumerate(order):
            if ordered:
                done_upto = max(done_upto, plan[i][2])
                ready = done_upto
            else:
                ready = plan[i][2]
            lat = 0.0
            if st.profile in ("jitter", "one-stalled", "late-start"):
                lat = st.dec.draw("parent-latency", lambda r: round(r.expovariate(10.0), 6))
            t = max(st.now + lat, ready)
            # run, in simulated start order, every task that has started by the time the parent gets this item
            while starts and starts[0][0] <= t + 1e-12:
                s, j = heapq.heappop(starts)
                st.now = max(st.now, s)
                results[j] = self._execute(f, j, items[j], plan[j][0])
            if i not in results:   # cannot happen: effect time <= end <= t
                raise HarnessError("scheduler bug: item delivered before it started")
            st.now = t
            ok, body = results.pop(i)
            st.ev("deliver", self.round, i)
            if ok:
                st.stats["bytes_result"] += len(body)
                yield dill.loads(body)
            else:
                exc, info = dill.loads(body)
                st.stats["task_exceptions"] += 1
                st.ev("raise", self.round, i, info["type"])
                exc._comasim_remote = info
                raise exc
        for w in self.workers.values():
            st.stats["max_tasks_one_worker"] = max(st.stats["max_tasks_one_worker"], w.tasks_run)

    def _execute(self, f, j, args, wid):
        st = self.state
        payload = dill.dumps((f, args))          # a fresh by-value copy of the closure for every task
        st.stats["bytes_task"] += len(payload)
        st.stats["tasks"] += 1
        st.ev("run", self.round, j, wid)
        ok, body, tapped, pre, post, handles = self.workers[wid].run(j, payload, self.round - st.round_offset)
        for a, b in zip(pre, post):
            if a > 0 and b < a:
                st.stats["bytes_destroyed"] += a - max(b, 0)
        st.stats["worker_output_handles"] += max(0, handles)
        if tapped:
            st.tapped.extend(tapped) if hasattr(st, "tapped") else setattr(st, "tapped", list(tapped))
        return ok, body
