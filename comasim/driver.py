"""Driver: spawns shards (one per core, each with its own PYTHONHASHSEED), aggregates their reports, triages
violations against known_findings.json, minimises and verifies replays, writes evidence, sets the exit code.

Exit codes: 0 held (possibly with KNOWN-FINDING lines); 1 VIOLATION (replay verified); 2 harness error.
"""
from __future__ import annotations

import argparse
import collections
import hashlib
import json
import os
import random
import re
import shutil
import signal
import subprocess
import sys
import tempfile
import time

HERE = os.path.dirname(os.path.dirname(os.path.abspath(__file__)))
PY = os.environ.get("COMASIM_PYTHON", "/venv/bin/python")

CLAIMED = ["C01", "C02", "C03", "C04", "C05", "C06", "C07", "C08", "C09", "C10", "C11", "C17", "C18"]

REAL = ["everything under src/ (parsers, correlation, aligner, segments, chainer, conflict resolution, workflow "
        "coordinators, XMAP writer/reader)", "p_tqdm._parallel / p_imap and tqdm", "dill (per-task closure copy, result copy)",
        "argparse / Args.parse", "pandas, numpy, scipy", "CPython io and the kernel file system (tmpfs scratch)",
        "forked worker processes (real processes, run one at a time)"]
STUB = ["pathos ProcessPool / multiprocess.Pool (replaced by comasim.sim.SimPool: seeded scheduler, serial baton)",
        "pathos cpu_count (seeded value)", "socket.gethostname (constant)",
        "CMAP input handles in stream-fault executions and every XMAP read-back (comasim.streams.SimTextReader)"]

TIER_WALL = {"quick": 75.0, "thorough": 1500.0}


def say(*a):
    print(*a, flush=True)


def repo_state():
    repo = os.path.realpath(os.environ.get("COMA_REPO", "/repo"))
    try:
        rev = subprocess.run(["git", "-C", repo, "rev-parse", "HEAD"], capture_output=True, text=True).stdout.strip()
        diff = subprocess.run(["git", "-C", repo, "diff", "HEAD"], capture_output=True, text=True).stdout
        dirty = hashlib.sha256(diff.encode()).hexdigest()[:12] if diff else ""
    except Exception:
        rev, dirty = "unknown", ""
    return {"path": repo, "rev": rev, "dirty": dirty}


def hash_seeds(seed, n):
    rng = random.Random(f"hashseeds/{seed}/{os.environ.get('COMASIM_HASHSALT', '')}")
    hs = []
    while len(hs) < n:
        v = rng.randrange(1, 4294967295)
        if v not in hs:
            hs.append(v)
    return hs


def spawn(args, hashseed, log):
    env = dict(os.environ)
    env["PYTHONHASHSEED"] = str(hashseed)
    env["PYTHONPATH"] = HERE + os.pathsep + env.get("PYTHONPATH", "")
    env.setdefault("OMP_NUM_THREADS", "1")
    env.setdefault("OPENBLAS_NUM_THREADS", "1")
    env.setdefault("MKL_NUM_THREADS", "1")
    f = open(log, "w")
    return subprocess.Popen([PY, "-m", "comasim.shard"] + args, stdout=f, stderr=subprocess.STDOUT, stdin=subprocess.DEVNULL,
                            env=env, cwd=HERE, start_new_session=True), f


def kill_group(p):
    try:
        os.killpg(p.pid, signal.SIGKILL)
    except OSError:
        pass


def run_tool(cmd, file, hashseed, tmp, timeout, extra=()):
    out = os.path.join(tmp, f"{cmd}-{os.getpid()}-{time.time_ns()}.json")
    p, f = spawn([cmd, "--file", file, "--out", out] + list(extra), hashseed, out + ".log")
    try:
        p.wait(timeout=timeout)
    except subprocess.TimeoutExpired:
        pass
    kill_group(p)
    f.close()
    try:
        return json.load(open(out))
    except Exception:
        try:
            return {"error": open(out + ".log").read()[-2000:]}
        except Exception:
            return {"error": "no output"}


# ----------------------------------------------------------------------------------------------------------
def load_known():
    if os.environ.get("COMASIM_NO_KNOWN") == "1":      # used once, to produce the replay files kept under known_findings/
        return []
    try:
        return json.load(open(os.path.join(HERE, "known_findings.json")))["findings"]
    except FileNotFoundError:
        return []


def match_known(known, prop, v):
    for k in known:
        if k.get("status") != "known" or k["property"] != prop or k["clause"] != v["clause"]:
            continue
        if re.fullmatch(k.get("signature", ".*"), v.get("signature", "")):
            return k
    return None


# ----------------------------------------------------------------------------------------------------------
def check(prop, tier, seed, jobs, worlds=None, wall=None, keep=False):
    sys.path.insert(0, HERE)
    from comasim import props as P  # light: does not import src
    pobj = P.PROPS[prop]
    t0 = time.time()
    worlds = worlds or int(os.environ.get("COMASIM_WORLDS", 0)) or (pobj.quick_worlds if tier == "quick" else pobj.thorough_worlds)
    wall = wall or float(os.environ.get("COMASIM_WALL", 0)) or TIER_WALL[tier]
    nsh = max(1, min(jobs, worlds))
    hs = hash_seeds(seed, nsh)
    base = os.environ.get("VERIF_SCRATCH") or ("/dev/shm" if os.path.isdir("/dev/shm") else tempfile.gettempdir())
    tmp = tempfile.mkdtemp(prefix=f"comasim-drv-{prop}-", dir=base)
    os.makedirs(os.path.join(HERE, "evidence"), exist_ok=True)
    procs = []
    deadline = t0 + wall
    for s in range(nsh):
        out = os.path.join(tmp, f"shard{s}.jsonl")
        p, f = spawn(["run", "--prop", prop, "--tier", tier, "--seed", str(seed), "--shard", str(s), "--nshards", str(nsh),
                      "--worlds", str(worlds), "--deadline", str(deadline), "--out", out,
                      "--stop-file", os.path.join(tmp, "STOP")], hs[s], out + ".log")
        procs.append((p, f, out))
    hard = deadline + 330
    harness = []
    early = os.environ.get("COMASIM_EARLY_STOP") == "1"
    known0 = load_known()
    offsets = {}
    while any(p.poll() is None for p, f, out in procs) and time.time() < hard:
        time.sleep(1.0)
        if not early or os.path.exists(os.path.join(tmp, "STOP")):
            continue
        for p, f, out in procs:         # an unlisted violation anywhere ends the run early
            try:
                with open(out) as fh:
                    fh.seek(offsets.get(out, 0))
                    chunk = fh.read()
                    if not chunk.endswith("\n"):
                        chunk = chunk[:chunk.rfind("\n") + 1]
                    offsets[out] = offsets.get(out, 0) + len(chunk.encode())
                for ln in chunk.splitlines():
                    d = json.loads(ln)
                    if any(match_known(known0, prop, v) is None for v in d.get("report", {}).get("violations", [])):
                        open(os.path.join(tmp, "STOP"), "w").close()
            except (OSError, ValueError):
                pass
    for p, f, out in procs:
        if p.poll() is None:
            harness.append(f"shard {out} exceeded the hard wall limit")
        kill_group(p)
        try:
            p.wait(timeout=10)
        except subprocess.TimeoutExpired:
            pass
        f.close()
    # ---- aggregate
    lines, summaries = [], []
    for s, (p, f, out) in enumerate(procs):
        try:
            for ln in open(out):
                d = json.loads(ln)
                if "harness_error" in d:
                    harness.append(f"shard {s}: {d['harness_error']}")
                elif "summary" in d:
                    summaries.append(d)
                else:
                    d["shard"] = s
                    lines.append(d)
        except Exception as e:  # noqa: BLE001
            harness.append(f"shard {s}: unreadable output ({e})")
        if p.returncode not in (0, None) and not any(f"shard {s}:" in h for h in harness):
            try:
                tail = open(out + ".log").read()[-1500:]
            except Exception:
                tail = ""
            harness.append(f"shard {s}: exit {p.returncode}: {tail}")
    if len(summaries) != nsh and not harness:
        harness.append(f"{nsh - len(summaries)} shard(s) wrote no summary")
    lines.sort(key=lambda d: (d["world"], d["secondary"]))
    agg = collections.Counter()
    probes = collections.Counter()
    clauses = collections.Counter()
    faults = collections.Counter()
    maxes = {}
    hist = {"nodes": collections.Counter(), "profiles": collections.Counter(), "modes": collections.Counter(),
            "stream_profiles": collections.Counter()}
    sigs = set()
    nontrivial = set()
    abort_samples = []
    for sm in summaries:
        su = sm["summary"]
        for k in ("n_exec", "n_recheck", "late_diffs", "aborted", "short_reads", "exec_digests"):
            agg[k] += su.get(k, 0)
        agg["sim_time"] += su.get("sim_time", 0)
        agg["wall_exec"] += su.get("wall_exec", 0)
        for k, v in su.get("faults", {}).items():
            if k.startswith("max_"):
                maxes[k] = max(maxes.get(k, 0), v)
            else:
                faults[k] += v
        for k, v in su.get("nodes_hist", {}).items():
            hist["nodes"][str(k)] += v
        for k, v in su.get("profile_hist", {}).items():
            hist["profiles"][str(k)] += v
        for k, v in su.get("mode_hist", {}).items():
            hist["modes"][str(k)] += v
        for k, v in su.get("stream_profiles", {}).items():
            hist["stream_profiles"][str(k)] += v
        sigs.update(su.get("signatures", []))
        abort_samples.extend(su.get("abort_samples", []))
    violations = []
    samples = []
    worlds_done = set()
    max_probe = {}
    for d in lines:
        rep = d["report"]
        if not d["secondary"]:
            worlds_done.add(d["world"])
        for k, v in rep["probes"].items():
            if k.startswith("max_"):
                max_probe[k] = max(max_probe.get(k, 0), v)
            else:
                probes[k] += v
        for k, v in rep["clauses"].items():
            clauses[k] += v
        nontrivial.update(rep["nontrivial"])
        for v in rep["violations"]:
            violations.append((d, v))
        if "case" in d and len(samples) < 3 and not rep["violations"]:
            samples.append(sample_of(d))
    probes.update(max_probe)
    if os.environ.get("COMASIM_DUMP_DIGESTS"):
        json.dump({f"{d['world']}/{int(d['secondary'])}": d.get("digests", []) for d in lines},
                  open(os.environ["COMASIM_DUMP_DIGESTS"], "w"))
    # C09: the same world under two interpreter hash seeds
    if prop == "C09":
        byw = collections.defaultdict(list)
        for d in lines:
            byw[d["world"]].append(d)
        for w, ds in byw.items():
            if len(ds) == 2:
                agg["worlds_under_two_hash_seeds"] += 1
                a, b = ds
                da, db = a["report"]["extra"].get("exec0_digest"), b["report"]["extra"].get("exec0_digest")
                if da != db or a["report"]["extra"].get("exec0_status") != b["report"]["extra"].get("exec0_status"):
                    prim = a if not a["secondary"] else b
                    violations.append((prim, {"clause": "hash-seed", "signature": "hash-seed",
                                              "detail": f"world {w}: output under PYTHONHASHSEED={a['hash_seed']} differs from "
                                                        f"PYTHONHASHSEED={b['hash_seed']}", "exec": 0,
                                              "hash_seeds": [a["hash_seed"], b["hash_seed"]]}))
    # ---- triage
    known = load_known()
    out_lines = []
    reported = 0
    known_hits = collections.OrderedDict()
    groups = collections.OrderedDict()
    for d, v in violations:
        k = match_known(known, prop, v)
        if k is not None:
            key = (k["clause"], k.get("signature", ""))
            known_hits.setdefault(key, [k, 0, v])
            known_hits[key][1] += 1
            continue
        groups.setdefault((v["clause"], v.get("signature", "")), []).append((d, v))
    for (kc, ks), (k, n, v) in known_hits.items():
        out_lines.append(f"KNOWN-FINDING: property={prop} clause={kc} {k.get('what', '')} (met {n}x this run; e.g. {v['detail'][:160]})")
    exit_code = 0
    os.makedirs(os.path.join(HERE, "replays"), exist_ok=True)
    unreproduced = []
    for (clause, sig), items in list(groups.items())[:6]:
        d, v = items[0]
        case = d.get("case")
        if case is None:
            rng_ = random.Random(subseed(seed, prop, d["world"]))
            rng_.world_index = d["world"]
            case = pobj.gen(rng_, tier)
        rp = {"property": prop, "clause": clause, "signature": sig, "detail": v["detail"], "violation": v,
              "seed": seed, "world": d["world"], "tier": tier, "hash_seed": d["hash_seed"], "case": case,
              "occurrences_this_run": len(items), "repo": repo_state(), "minimised": None}
        sigh = hashlib.sha256(sig.encode()).hexdigest()[:6]
        path = os.path.join(HERE, "replays", f"{prop}-{clause}-{sigh}-{seed}-{d['world']}.json".replace("/", "_"))
        json.dump(rp, open(path, "w"), indent=1)
        if clause == "hash-seed":
            ok = verify_hash_seed(rp, path, tmp)
        else:
            res = run_tool("replay", path, d["hash_seed"], tmp, 400)
            ok = bool(res.get("reproduced"))
            if ok and res.get("case"):
                rp["case"] = res["case"]       # now carries the recorded decision lists
                if tier == "thorough" or os.environ.get("COMASIM_MINIMISE", "1") == "1":
                    json.dump(rp, open(path, "w"), indent=1)
                    m = run_tool("minimise", path, d["hash_seed"], tmp, 260,
                                 ["--seconds", "120" if tier == "quick" else "200"])
                    if m.get("minimised"):
                        rp["minimised"] = m["minimised"]
                        rp["minimise_steps"] = m.get("steps")
                json.dump(rp, open(path, "w"), indent=1)
        if ok:
            out_lines.append(f"VIOLATION property={prop} replay={os.path.relpath(path, HERE)}")
            out_lines.append(f"  clause={clause} signature={sig} occurrences={len(items)} world={d['world']}: {v['detail'][:300]}")
            if v.get("record"):
                out_lines.append(f"  record: {v['record'][:300]}")
            exit_code = 1
            reported += 1
        else:
            unreproduced.append(f"{clause}/{sig} world {d['world']}: did not reproduce from its replay file")
            os.replace(path, path + ".unreproduced")
    if unreproduced:
        harness += unreproduced
    stub = None
    if prop == "C09" and tier == "thorough" and os.environ.get("COMASIM_SKIP_STUB") != "1":
        # the stub's fidelity is part of what a C09 verdict rests on: real pathos pool vs SimPool on 24 worlds + semantics probes
        env = dict(os.environ, PYTHONPATH=HERE, PYTHONHASHSEED="0")
        try:
            r = subprocess.run([PY, os.path.join(HERE, "selftest", "stub.py"), "24", str(seed + 11)], capture_output=True, text=True,
                               timeout=1200, env=env, cwd=HERE)
            last = [ln for ln in r.stdout.strip().split("\n") if ln.startswith("stub fidelity")]
            stub = {"exit": r.returncode, "summary": last[-1] if last else r.stdout[-300:],
                    "semantics": [ln for ln in r.stdout.split("\n") if ln.startswith("semantics")]}
            if r.returncode != 0:
                harness.append("stub fidelity self-test failed: " + (last[-1] if last else r.stdout[-500:] + r.stderr[-500:]))
        except subprocess.TimeoutExpired:
            harness.append("stub fidelity self-test timed out")
    wall_s = time.time() - t0
    n_exec = int(agg["n_exec"])
    evidence = {
        "property_id": prop, "tier": tier, "seed": seed, "level": "exploration",
        "coverage": {
            "evaluations": n_exec,
            "distinct_nontrivial": len(nontrivial),
            "rule": RULES.get(prop, RULES["default"]),
            "samples": samples or [{"note": "no violation-free sample world was recorded"}],
            "class": pobj.klass,
            "worlds": len(worlds_done), "worlds_planned": worlds,
            "executions": n_exec, "determinism_rechecks": int(agg["n_recheck"]),
            "worlds_per_hour": round(len(worlds_done) / wall_s * 3600), "executions_per_hour": round(n_exec / wall_s * 3600),
            "seeds": [seed], "simulated_seconds": round(agg["sim_time"], 3),
            "faults_fired": dict(faults), "fault_maxima": maxes,
            "worker_count_histogram": dict(sorted(hist["nodes"].items(), key=lambda kv: int(kv[0]))),
            "schedule_profiles": dict(hist["profiles"]), "output_modes": dict(hist["modes"]),
            "stream_chunk_profiles": dict(hist["stream_profiles"]),
            "distinct_interleaving_signatures": len(sigs),
            "interleaving_measure": "distinct (pool size, task->worker map, completion permutation, side-effect order) per pool round",
            "distinct_hash_seeds": len(set(hs)), "hash_seeds": hs,
            "worlds_under_two_hash_seeds": int(agg.get("worlds_under_two_hash_seeds", 0)),
            "distinct_execution_digests": int(agg["exec_digests"]),
            "aborted_executions": int(agg["aborted"]), "abort_samples": abort_samples[:3],
            "late_visibility_differences": int(agg["late_diffs"]),
            "reach_probes": dict(probes), "clause_evaluations": dict(clauses),
            "known_findings_met": {f"{a}|{b}": n for (a, b), (k, n, v) in known_hits.items()},
            "real_components": REAL, "stub_components": STUB, "stub_crosscheck_vs_real_pool": stub,
            "shards": nsh, "harness_errors": harness[:5],
            "repo": repo_state(),
        },
        "assumptions": ["SimPool is a faithful stand-in for pathos ProcessPool at task granularity (selftest stub)",
                        "sampling, not enumeration: a clean batch is evidence, not proof",
                        "tasks are atomic in simulated time; OS-level interleaving inside a task is not simulated"],
        "wall_s": round(wall_s, 2), "violations": reported,
    }
    json.dump(evidence, open(os.path.join(HERE, "evidence", f"{prop}.json"), "w"), indent=1)
    if not keep:
        shutil.rmtree(tmp, ignore_errors=True)
    for ln in out_lines:
        say(ln)
    say(f"[{prop} {tier} seed={seed}] worlds={len(worlds_done)}/{worlds} executions={n_exec} nontrivial={len(nontrivial)} "
        f"signatures={len(sigs)} violations={reported} known={sum(n for _, n, _ in known_hits.values())} "
        f"aborted={int(agg['aborted'])} wall={wall_s:.0f}s")
    if harness:
        for h in harness[:5]:
            say("HARNESS-ERROR:", h[:1500])
        return 2 if exit_code == 0 else exit_code
    if n_exec == 0:
        say("HARNESS-ERROR: nothing was executed")
        return 2
    return exit_code


def subseed(seed, prop, w):
    return int(hashlib.sha256(f"{seed}/{prop}/{w}".encode()).hexdigest()[:16], 16)


def sample_of(d):
    case = d["case"]
    if "filesets" not in case:
        return {"world": d["world"], "molecules": [{"id": m["id"], "labels": len(m["pos"])} for m in case["maps"]],
                "filter": case.get("filter"),
                "variants": [{k: v[k] for k in ("profile", "seekable", "api")} for v in case["variants"]]}
    fs = case["filesets"]["base"]
    return {"world": d["world"], "hash_seed": d["hash_seed"],
            "references": [{"id": r["id"], "labels": len(r["pos"]), "length": r["length"], "first_positions": r["pos"][:4]}
                           for r in fs["refs"]],
            "queries": [{"id": q["id"], "labels": len(q["pos"]), "first_positions": q["pos"][:4]} for q in fs["queries"]],
            "filesets": sorted(case["filesets"]), "config": case.get("config"),
            "executions": [{k: v for k, v in ex.items() if k != "decisions"} | {"decisions_head": (ex.get("decisions") or [])[:8],
                                                                                 "n_decisions": len(ex.get("decisions") or [])}
                           for ex in case["executions"]],
            "probes": d["report"]["probes"]}


def verify_hash_seed(rp, path, tmp):
    a, b = rp["violation"]["hash_seeds"]
    ra = run_tool("replay", path, a, tmp, 400)
    rb = run_tool("replay", path, b, tmp, 400)
    return bool(ra.get("files_digest")) and ra.get("files_digest") != rb.get("files_digest")


def replay(path):
    rp = json.load(open(path))
    base = os.environ.get("VERIF_SCRATCH") or ("/dev/shm" if os.path.isdir("/dev/shm") else tempfile.gettempdir())
    tmp = tempfile.mkdtemp(prefix="comasim-replay-", dir=base)
    try:
        if rp["clause"] == "hash-seed":
            ok = verify_hash_seed(rp, path, tmp)
            res = {}
        else:
            res = run_tool("replay", path, rp.get("hash_seed", 0), tmp, 600)
            ok = bool(res.get("reproduced"))
            if ok and rp.get("minimised"):
                rm = run_tool("replay", path, rp.get("hash_seed", 0), tmp, 600, ["--minimised"])
                say(f"minimised case reproduces: {bool(rm.get('reproduced'))}")
        if ok:
            say(f"VIOLATION property={rp['property']} replay={path}")
            for v in res.get("violations", [])[:3]:
                say(f"  clause={v['clause']} {v['detail'][:300]}")
            return 1
        if "error" in res:
            say("HARNESS-ERROR:", res["error"])
            return 2
        say(f"not reproduced: property={rp['property']} clause={rp['clause']}")
        return 0
    finally:
        shutil.rmtree(tmp, ignore_errors=True)


RULES = {
    "default": "worlds (reference set + query set + file layout + configuration) are drawn from sha256(VERIF_SEED/property/world); "
               "each is executed by the real program under seeded SimPool schedules. An execution is non-trivial if it wrote at "
               "least one XMAP record; distinct = distinct SHA-256 of the normalised output files.",
    "C17": "molecule sets x layouts x chunk profiles drawn from sha256(VERIF_SEED/property/world); evaluations = reader calls "
           "through a simulated stream; non-trivial = at least one labelled molecule returned; distinct = distinct "
           "(molecule set, layout, chunk profile, filter) digests.",
    "C09": "one world = one argv executed K times under different worker counts / schedule profiles (execution 0 serial), and again "
           "in a second interpreter with another PYTHONHASHSEED; non-trivial = execution 0 wrote at least one record; distinct = "
           "distinct SHA-256 of execution 0's normalised files.",
}


def main(argv=None):
    ap = argparse.ArgumentParser(prog="check")
    ap.add_argument("prop", nargs="?")
    ap.add_argument("--tier", default=os.environ.get("VERIF_TIER", "quick"), choices=["quick", "thorough"])
    ap.add_argument("--replay")
    ap.add_argument("--jobs", type=int, default=int(os.environ.get("COMASIM_JOBS", os.cpu_count() or 4)))
    ap.add_argument("--worlds", type=int)
    ap.add_argument("--wall", type=float)
    ap.add_argument("--keep", action="store_true")
    a = ap.parse_args(argv)
    if a.replay:
        return replay(a.replay)
    if a.prop not in CLAIMED:
        say(f"unknown or unclaimed property {a.prop}; claimed: {CLAIMED}")
        return 2
    seed = int(os.environ.get("VERIF_SEED", "0") or 0)
    return check(a.prop, a.tier, seed, a.jobs, a.worlds, a.wall, a.keep)


if __name__ == "__main__":
    sys.exit(main())
