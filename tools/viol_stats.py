"""Break down the violations of a kept driver run (./check ... --keep) by clause / signature / configuration."""
import collections
import glob
import json
import sys

d = sys.argv[1]
keys = sys.argv[2:] or ["-sj", "-ms", "-d", "-bs", "-su"]
cnt = collections.Counter()
worlds = collections.defaultdict(set)
for f in glob.glob(d + "/shard*.jsonl"):
    for ln in open(f):
        x = json.loads(ln)
        if "report" not in x:
            continue
        for v in x["report"]["violations"]:
            cfg = x.get("case", {}).get("config", {})
            k = (v["clause"], v.get("signature", "")) + tuple(f"{kk}={cfg.get(kk, 'def')}" for kk in keys)
            cnt[k] += 1
            worlds[k].add(x["world"])
for k, v in sorted(cnt.items()):
    print(v, len(worlds[k]), k, sorted(worlds[k])[:4])
